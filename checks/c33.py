"""C33 — translation blocks render like their source text and are fully extractable.

Every trans block over a piece alphabet (text with %, %s, %(x)s, braces, line breaks,
markup, {{ x }}, {{ n }}) x tag headers x pluralize forms x context string is compiled
under old/new style gettext x autoescape x ext.i18n.trimmed policy and rendered with
recording identity translations for counts 0/1/2.  Reference R-i18n (plain Python from
docs/templates.rst "i18n" and docs/extensions.rst): the text of the block with the
variables substituted.  Every recorded gettext call must be among the messages returned
by extract_from_ast and babel_extract under the same options.
"""
from __future__ import annotations

import io
import itertools
import re

from vf import core

META = {
    "level": "exploration",
    "engine": "E1",
    "technique": "bounded-exhaustive enumeration of trans blocks and gettext calls over a piece alphabet against a "
    "plain-Python text builder (R-i18n) and an extraction-membership oracle",
    "text": "All trans blocks whose singular+plural bodies have <= 2 (quick) / <= 3 (thorough) pieces from {a, %, %s, "
    "%(x)s, {, }}, newline+indent, <b>, {{ x }}, {{ n }}} x 9 tag headers (none, x=e, n=count, both orders, trimmed, "
    "notrimmed, trimmed n=count, n=cnt()) x pluralize {none, implicit, explicit n} x context string {none, \"ctx\"}, "
    "plus a {{ num }} family, a whitespace family (bodies starting with a newline / ending with an indented line, "
    "trim_blocks x lstrip_blocks set both on the rendering environment and in the babel_extract options) and direct "
    "gettext/_/ngettext/pgettext/npgettext calls, each under old/new style x "
    "autoescape off/on x policy ext.i18n.trimmed off/on, rendered for counts 0/1/2 with values containing < & %. "
    "Rendered text must equal the block text with variables substituted (literal % stays one %, singular iff "
    "count == 1, trimming when trimmed/policy, values escaped under autoescape, block text never escaped); the "
    "gettext function called must be [n][p]gettext as documented; every recorded (function, message strings) must "
    "be extracted by extract_from_ast(env.parse(src)) and by babel_extract with the same options.",
    "note": "Identity translations only (the property is about identity); line numbers and comments of extraction "
    "are not compared; whitespace-control modifiers on the trans tags and custom delimiters are out of scope.",
    "design_ref": "DESIGN.md §4 C33, §3 R-i18n",
}

# pieces: (source text, kind) kind 't' literal text, 'v' variable
PIECES = (
    ("a", "t"), ("%", "t"), ("%s", "t"), ("%(x)s", "t"), ("{", "t"), ("}}", "t"), ("\n  ", "t"), ("<b>", "t"),
    ("x", "v"), ("n", "v"),
)
NUM_PIECES = (("a", "t"), ("%", "t"), ("x", "v"), ("num", "v"))
# whitespace family: trim_blocks / lstrip_blocks act on a body that starts with a newline or ends with an
# indented line before {% pluralize %} / {% endtrans %}
WS_PIECES = (("\n", "t"), ("a", "t"), ("%", "t"), ("x", "v"), ("\n  ", "t"))
# inline-whitespace family: double blanks and tabs WITHIN a line must survive trimming (docs: trimmed replaces
# "all linebreaks and the whitespace surrounding them" only)
IL_SITE_PIECES = (("a", "t"), ("%", "t"), ("<b>", "t"), ("x", "v"), ("n", "v"))
IL_PIECES = (("a", "t"), ("  ", "t"), ("\t", "t"), ("\n  ", "t"), ("x", "v"))
WS_OPTS = ((False, False), (True, False), (False, True), (True, True))  # trim_blocks, lstrip_blocks

# header key -> (source, declared variables in order [(name, value key)], trimmed modifier)
HEADERS = {
    "none": ("", (), None),
    "x": ("x=e", (("x", "e"),), None),
    "n": ("n=count", (("n", "count"),), None),
    "xn": ("x=e, n=count", (("x", "e"), ("n", "count")), None),
    "nx": ("n=count, x=e", (("n", "count"), ("x", "e")), None),
    "trimmed": ("trimmed", (), True),
    "notrimmed": ("notrimmed", (), False),
    "trimmed-n": ("trimmed n=count", (("n", "count"),), True),
    "ncall": ("n=cnt()", (("n", "count"),), None),
}
NUM_HEADERS = {
    "none": ("", (), None),
    "num": ("num=count", (("num", "count"),), None),
    "xnum": ("x=e, num=count", (("x", "e"), ("num", "count")), None),
}
PLURAL = ("none", "implicit", "explicit")
COUNTS = (0, 1, 2)
XV = "<x&%s>"
EV = "<e&%(x)s'>"
CONFIGS = tuple(itertools.product((False, True), (False, True), (False, True)))  # newstyle, autoescape, policy


def render_ctx(c):
    return {"x": XV, "e": EV, "count": c, "n": (c + 1) % 3, "num": (c + 2) % 3, "cnt": (lambda: c)}


# --------------------------------------------------------------------------- source and reference model


class Case:
    __slots__ = ("ctx", "hkey", "headers", "plural", "sing", "plur", "pieces", "pvar", "fam", "ws")

    def __init__(self, ctx, hkey, plural, sing, plur, num_family=False, ws=(False, False)):
        # num_family: False (standard alphabet), True ({{ num }} family) or "ws" (whitespace family)
        self.fam = num_family
        self.ws = tuple(ws)
        num_family = num_family is True
        self.ctx = ctx
        self.hkey = hkey
        self.headers = NUM_HEADERS if num_family else HEADERS
        self.pieces = NUM_PIECES if num_family else {"ws": WS_PIECES, "il": IL_PIECES, "site": IL_SITE_PIECES}.get(self.fam, PIECES)
        self.plural = plural
        self.sing = tuple(sing)
        self.plur = tuple(plur) if plur is not None else None
        self.pvar = "num" if num_family else "n"

    def key(self):
        return (self.ctx, self.hkey, self.plural, self.sing, self.plur, self.fam, self.ws)

    def body_src(self, idxs):
        return "".join(("{{ %s }}" % s) if k == "v" else s for s, k in (self.pieces[i] for i in idxs))

    def source(self):
        hsrc = self.headers[self.hkey][0]
        s = "[{% trans" + (' "ctx"' if self.ctx else "") + ((" " + hsrc) if hsrc else "") + " %}"
        s += self.body_src(self.sing)
        if self.plural != "none":
            s += "{% pluralize" + ((" " + self.pvar) if self.plural == "explicit" else "") + " %}"
            s += self.body_src(self.plur)
        return s + "{% endtrans %}]"

    def ambiguous(self):
        """adjacent pieces must not form a delimiter that the pieces themselves do not contain."""
        for idxs in (self.sing, self.plur or ()):
            sk = "".join("\1" if k == "v" else s for s, k in (self.pieces[i] for i in idxs)) + "\2"
            if re.search(r"\{[{%#\1\2]", sk):
                return True
        return False


def esc(s):
    return (str(s).replace("&", "&amp;").replace("<", "&lt;").replace(">", "&gt;")
            .replace("'", "&#39;").replace('"', "&#34;"))


def model(case: Case, cfg, c):
    """-> ('error',) for templates the documentation makes illegal, else
    ('ok', expected output, expected gettext function, expected count argument or None)."""
    newstyle, autoescape, policy = cfg
    hsrc, hvars, trimmed = case.headers[case.hkey]
    declared = [n for n, _ in hvars]
    sing_vars = [case.pieces[i][0] for i in case.sing if case.pieces[i][1] == "v"]
    count_var = None
    if case.plural == "explicit":
        if case.pvar not in declared:
            return ("error",)  # "unknown variable for pluralization": only variables bound in the tag
        count_var = case.pvar
    elif case.plural == "implicit":
        # docs: "By default, the first variable in a block is used"
        if declared:
            count_var = declared[0]
        elif sing_vars:
            count_var = sing_vars[0]  # CALIBRATED: with no bound variable the first one used in the singular text
        else:
            return ("error",)  # pluralize without variables
    ctxv = render_ctx(c)
    values = dict(ctxv)
    for n, vk in hvars:
        values[n] = ctxv[vk]
    idxs = case.sing
    count = None
    if count_var is not None:
        count = values[count_var]
        if not (count == 1):  # identity ngettext: singular iff n == 1
            idxs = case.plur
    if trimmed is None:
        trimmed = policy
    skeleton = "".join(("\0%s\0" % s) if k == "v" else s for s, k in (case.pieces[i] for i in idxs))
    trim_blocks, lstrip_blocks = case.ws
    line_start = False
    if trim_blocks and skeleton.startswith("\n"):
        # docs (Whitespace Control): "the first newline after a template tag is removed automatically"
        skeleton, line_start = skeleton[1:], True
    if lstrip_blocks:
        # docs: "strip tabs and spaces from the beginning of a line to the start of a block. (Nothing will be
        # stripped if there are other characters before the start of the block.)"
        body = skeleton.rstrip(" \t")
        if body != skeleton and (body.endswith("\n") or (body == "" and line_start)):
            skeleton = body
    if trimmed:
        # docs: replace all linebreaks and the whitespace surrounding them with a single space and remove
        # leading and trailing whitespace
        skeleton = re.sub(r"\s*\n\s*", " ", skeleton).strip()
    parts = skeleton.split("\0")
    out = []
    for i, p in enumerate(parts):
        if i % 2:
            out.append(esc(values[p]) if autoescape else str(values[p]))
        else:
            out.append(p)
    func = ("n" if count_var is not None else "") + ("p" if case.ctx else "") + "gettext"
    func = {"npgettext": "npgettext", "ngettext": "ngettext", "pgettext": "pgettext", "gettext": "gettext"}[func]
    return ("ok", "[" + "".join(out) + "]", func, count)


# --------------------------------------------------------------------------- running the real thing


def make_env(cfg, rec, ws=(False, False)):
    import jinja2

    newstyle, autoescape, policy = cfg
    env = jinja2.Environment(extensions=["jinja2.ext.i18n"], autoescape=autoescape, trim_blocks=ws[0],
                             lstrip_blocks=ws[1])
    env.policies["ext.i18n.trimmed"] = policy

    def gettext(s):
        rec.append(("gettext", (s,)))
        return s

    def ngettext(s, p, n):
        rec.append(("ngettext", (s, p, n)))
        return s if n == 1 else p

    def pgettext(c, s):
        rec.append(("pgettext", (c, s)))
        return s

    def npgettext(c, s, p, n):
        rec.append(("npgettext", (c, s, p, n)))
        return s if n == 1 else p

    env.install_gettext_callables(gettext, ngettext, newstyle=newstyle, pgettext=pgettext, npgettext=npgettext)
    return env


# which leading arguments of each function are message strings (Babel's keyword specification:
# gettext 1; ngettext 1,2; pgettext 1c,2; npgettext 1c,2,3)
NSTR = {"gettext": 1, "_": 1, "ngettext": 2, "pgettext": 2, "npgettext": 3}


def norm_msg(func, args):
    return tuple(a if isinstance(a, str) else None for a in tuple(args)[:NSTR[func]])


def extracted_sets(src, cfg, env, ws=(False, False)):
    """normalised (function, message tuple) sets from both extraction interfaces."""
    import jinja2.ext as ext

    newstyle, autoescape, policy = cfg

    def norm(f, m):
        return norm_msg(f, (m,) if (isinstance(m, str) or m is None) else m)

    def real(f):
        return "gettext" if f == "_" else f  # `_` is the documented alias of gettext

    a = {(real(f), norm(f, m)) for _, f, m in ext.extract_from_ast(env.parse(src), ext.GETTEXT_FUNCTIONS)}
    opts = {"trimmed": "true" if policy else "false", "newstyle_gettext": "true" if newstyle else "false",
            "silent": "false", "trim_blocks": "true" if ws[0] else "false",
            "lstrip_blocks": "true" if ws[1] else "false"}
    b = {(real(f), norm(f, m)) for _, f, m, _ in ext.babel_extract(io.BytesIO(src.encode("utf-8")), ext.GETTEXT_FUNCTIONS,
                                                         [], opts)}
    return a, b


def evaluate(src, expect, cfg, extract=True, ws=(False, False)):
    """expect: function c -> model result.  Returns list of (kind, message) failures and outcome tags."""
    import jinja2

    fails, tags = [], []
    rec: list = []
    env = make_env(cfg, rec, ws)
    m0 = expect(COUNTS[0])
    try:
        with core.alarm(10):
            tmpl = env.from_string(src)
    except jinja2.TemplateSyntaxError as e:
        if m0[0] != "error":
            fails.append(("compile-error", "%s: %s" % (type(e).__name__, e)))
        tags.append("syntax-error")
        return fails, tags
    except core.CaseTimeout:
        return [("timeout", "compile")], tags
    except Exception as e:  # noqa: BLE001
        return [("compile-crash:" + type(e).__name__, str(e))], tags
    if m0[0] == "error":
        fails.append(("accepted-illegal", "the documentation makes this block illegal but it compiled"))
        return fails, tags
    seen_calls = set()
    for c in COUNTS:
        m = expect(c)
        del rec[:]
        try:
            with core.alarm(10):
                out = tmpl.render(render_ctx(c))
        except core.CaseTimeout:
            fails.append(("timeout", "render"))
            continue
        except Exception as e:  # noqa: BLE001
            fails.append(("render-error:" + type(e).__name__, "count=%d: %s" % (c, e)))
            tags.append("render-error")
            continue
        if out != m[1]:
            fails.append(("render-mismatch", "count=%d: got %r, expected %r" % (c, out, m[1])))
        if m[2] is not None:
            if len(rec) != 1 or rec[0][0] != m[2]:
                fails.append(("wrong-function", "count=%d: calls %r, expected one call of %s" % (c, rec, m[2])))
            elif m[3] is not None and rec[0][1][-1] != m[3]:
                fails.append(("wrong-count", "count=%d: call %r, expected count argument %r" % (c, rec[0], m[3])))
        for f, args in rec:
            seen_calls.add((f, norm_msg(f, args)))
        tags.append("form:" + ("same" if out == expect(1)[1] else "other"))
    if extract:
        try:
            a, b = extracted_sets(src, cfg, env, ws)
        except Exception as e:  # noqa: BLE001
            fails.append(("extract-error:" + type(e).__name__, str(e)))
            return fails, tags
        for call in sorted(seen_calls, key=repr):
            if call not in a:
                fails.append(("not-extracted-ast", "%r passed to gettext at render time; extract_from_ast gave %r" % (
                    call, sorted(a, key=repr))))
            if call not in b:
                fails.append(("not-extracted-babel", "%r passed to gettext at render time; babel_extract gave %r" % (
                    call, sorted(b, key=repr))))
    return fails, tags


def cfg_name(cfg):
    return ("newstyle" if cfg[0] else "oldstyle") + ("+autoescape" if cfg[1] else "") + ("+policy" if cfg[2] else "")


def ws_name(ws):
    return ("+trim_blocks" if ws[0] else "") + ("+lstrip_blocks" if ws[1] else "")


def features(case: Case):
    text = "".join(case.pieces[i][0] for i in case.sing + (case.plur or ()) if case.pieces[i][1] == "t")
    f = []
    if "%" in text:
        f.append("percent")
    if "\n" in text:
        f.append("newline")
    if "<" in text:
        f.append("markup")
    if "{" in text or "}" in text:
        f.append("brace")
    if any(case.pieces[i][1] == "v" for i in case.sing + (case.plur or ())):
        f.append("bodyvar")
    if case.headers[case.hkey][1]:
        f.append("tagvar")
    if case.headers[case.hkey][2] is not None:
        f.append("trimmed" if case.headers[case.hkey][2] else "notrimmed")
    if case.plural != "none":
        f.append("pluralize")
    if case.ctx:
        f.append("context")
    if case.ws[0]:
        f.append("trim_blocks")
    if case.ws[1]:
        f.append("lstrip_blocks")
    used = [case.pieces[i][0] for i in case.sing + (case.plur or ()) if case.pieces[i][1] == "v"]
    if "num" in used or any(n == "num" for n, _ in case.headers[case.hkey][1]):
        f.append("num")
    return f


def check_case(case: Case, cfg, extract=True):
    return evaluate(case.source(), lambda c: model(case, cfg, c), cfg, extract, case.ws)


def simplifications(case: Case):
    nf = case.fam
    if case.ws != (False, False):
        for ws in ((False, False), (case.ws[0], False), (False, case.ws[1])):
            if ws != case.ws:
                yield Case(case.ctx, case.hkey, case.plural, case.sing, case.plur, nf, ws)
    if case.ctx:
        yield Case(False, case.hkey, case.plural, case.sing, case.plur, nf, case.ws)
    if case.plural != "none":
        yield Case(case.ctx, case.hkey, "none", case.sing, None, nf, case.ws)
        yield Case(case.ctx, case.hkey, "none", case.plur, None, nf, case.ws)
        if case.plural == "explicit":
            yield Case(case.ctx, case.hkey, "implicit", case.sing, case.plur, nf, case.ws)
    if case.hkey != "none":
        yield Case(case.ctx, "none", case.plural, case.sing, case.plur, nf, case.ws)
        order = list(case.headers)  # strictly simpler headers only (well-founded: no cycles)
        for hk in ("x", "n", "num"):
            if hk in case.headers and order.index(hk) < order.index(case.hkey):
                yield Case(case.ctx, hk, case.plural, case.sing, case.plur, nf, case.ws)
    for i in range(len(case.sing)):
        yield Case(case.ctx, case.hkey, case.plural, case.sing[:i] + case.sing[i + 1:], case.plur, nf, case.ws)
    if case.plur:
        for i in range(len(case.plur)):
            yield Case(case.ctx, case.hkey, case.plural, case.sing, case.plur[:i] + case.plur[i + 1:], nf)


def minimise(case: Case, cfg, kind):
    """greedy delta-debugging over the case structure and configuration, keeping the failure kind."""
    def fails(cs, cf):
        if cs.ambiguous():
            return False
        return any(k == kind for k, _ in check_case(cs, cf)[0])

    changed = True
    while changed:
        changed = False
        for pos in (1, 2):  # switch autoescape / the policy off if the failure does not need them
            cf = cfg[:pos] + (False,) + cfg[pos + 1:]
            if cf != cfg and fails(case, cf):
                cfg, changed = cf, True
        for cs in simplifications(case):
            if fails(cs, cfg):
                case, changed = cs, True
                break
    return case, cfg


_MIN_CACHE: dict = {}


def report(p, case, cfg, fails):
    """one violation per failure kind; the signature comes from the delta-debugged minimal case.  Cases with the
    same (kind, configuration, feature set) as one already minimised in this worker reuse its result."""
    done = set()
    for kind, msg in fails:
        if kind in done:
            continue
        done.add(kind)
        ck = (kind, cfg, tuple(features(case)))
        if ck not in _MIN_CACHE:
            mc, mcfg = minimise(case, cfg, kind)
            mfails = [m for k, m in check_case(mc, mcfg)[0] if k == kind]
            sig = "C33/%s/%s/%s" % (kind, cfg_name(mcfg), "+".join(features(mc)) or "plain")
            _MIN_CACHE[ck] = (sig, mc, mcfg, mfails[0] if mfails else msg)
        sig, mc, mcfg, mmsg = _MIN_CACHE[ck]
        src = mc.source()
        p.violation(sig, {
            "msg": "%s%s %r: %s" % (cfg_name(mcfg), ws_name(mc.ws), src, mmsg),
            "source": src, "config": cfg_name(mcfg), "found_with": {"source": case.source(), "config": cfg_name(cfg)},
            "script": "from checks import c33\nc33.replay_source(%r, %r, %r)\n" % (mc.key(), mcfg, None),
        })


def replay_source(key, cfg, _unused=None):
    core.import_all_jinja()
    case = Case(*key)
    cfg = tuple(cfg)
    src = case.source()
    print("config:", cfg_name(cfg), "trim_blocks=%s lstrip_blocks=%s" % case.ws)
    print("source:", repr(src))
    rec = []
    env = make_env(cfg, rec, case.ws)
    try:
        t = env.from_string(src)
    except Exception as e:  # noqa: BLE001
        print("compile:", type(e).__name__, e)
        print("model  :", model(case, cfg, 0))
        return
    for c in COUNTS:
        del rec[:]
        try:
            out = t.render(render_ctx(c))
        except Exception as e:  # noqa: BLE001
            out = "%s: %s" % (type(e).__name__, e)
        print("count=%d rendered %r" % (c, out))
        print("        expected %r" % (model(case, cfg, c)[1:2],))
        print("        gettext calls", rec)
    print("extract_from_ast / babel_extract:", extracted_sets(src, cfg, env, case.ws))


# --------------------------------------------------------------------------- direct gettext calls

CALL_PIECES = ("a", "%%", "%(x)s", "<b>", "{", "\n  ")
CALL_FUNCS = ("gettext", "_", "ngettext", "pgettext", "npgettext")


def jstr(s):
    return '"' + s.replace("\\", "\\\\").replace("\n", "\\n").replace('"', '\\"') + '"'


def call_case(func, idxs, newstyle):
    """-> (source, expect(c)) for {{ func(MSG...) }} — old style formats with the |format filter (docs)."""
    msg = "".join(CALL_PIECES[i] for i in idxs)
    plural_msg = msg + "s"
    has_x = "%(x)s" in msg
    args = []
    if func in ("pgettext", "npgettext"):
        args.append('"ctx"')
    args.append(jstr(msg))
    if func in ("ngettext", "npgettext"):
        args += [jstr(plural_msg), "count"]
    if newstyle:
        src = "[{{ %s(%s%s) }}]" % (func, ", ".join(args), ", x=x" if has_x else "")
    else:
        src = "[{{ %s(%s)%s }}]" % (func, ", ".join(args), "|format(x=x)" if has_x else "")
    real = "gettext" if func == "_" else func

    def expect(c, cfg):
        autoescape = cfg[1]
        m = msg if (func in ("gettext", "_", "pgettext") or c == 1) else plural_msg
        if newstyle:
            # docs: formatting is part of the call, always applied; the translated string is marked safe,
            # formatting escapes the parameters
            parts = re.split(r"(%%|%\(x\)s)", m)
            out = "".join("%" if q == "%%" else ((esc(XV) if autoescape else XV) if q == "%(x)s" else q)
                          for q in parts)
        else:
            # docs: standard gettext calls: formatting is a separate step with |format; the plain result
            # string is escaped like any other string under autoescape  # CALIBRATED (escaping of old-style result)
            if has_x:
                parts = re.split(r"(%%|%\(x\)s)", m)
                out = "".join("%" if q == "%%" else (XV if q == "%(x)s" else q) for q in parts)
            else:
                out = m
            if autoescape:
                out = esc(out)
        return ("ok", "[" + out + "]", real, c if func in ("ngettext", "npgettext") else None)

    return src, expect


# --------------------------------------------------------------------------- enumeration


def bodies(npieces, total, plural):
    """all (sing, plur) index tuples with len(sing)+len(plur) <= total."""
    rng = range(npieces)
    if plural == "none":
        for k in range(total + 1):
            for s in itertools.product(rng, repeat=k):
                yield s, None
    else:
        for k in range(total + 1):
            for ks in range(k + 1):
                for s in itertools.product(rng, repeat=ks):
                    for pl in itertools.product(rng, repeat=k - ks):
                        yield s, pl


def shard_trans(arg):
    ctx, hkey, plural, total, num_family = arg
    p = core.Part()
    npieces = len(NUM_PIECES if num_family else PIECES)
    for s, pl in bodies(npieces, total, plural):
        case = Case(ctx, hkey, plural, s, pl, num_family)
        if case.ambiguous():
            p.count("skipped_ambiguous_adjacency")
            continue
        p.count("templates")
        for cfg in CONFIGS:
            p.evals += 1
            fails, tags = check_case(case, cfg, extract=not cfg[1])
            if fails:
                report(p, case, cfg, fails)
            if "syntax-error" in tags:
                p.count("illegal_blocks_rejected")
            else:
                p.count("renders", len(COUNTS))
                p.sig((cfg_name(cfg), tuple(features(case)), tuple(tags)))
        p.sample({"source": case.source(), "expected_count_1_newstyle_autoescape": model(case, (True, True, False), 1)[1:2]})
    return p


def ws_bodies(mid_len):
    """lead in {'', newline} + <= mid_len middle pieces of {a, %, {{ x }}} + trail in {'', newline+indent}."""
    for lead in ((), (0,)):
        for k in range(mid_len + 1):
            for mid in itertools.product((1, 2, 3), repeat=k):
                for trail in ((), (4,)):
                    yield lead + mid + trail


def shard_inline(arg):
    """inline-whitespace family under trimmed / policy: bodies of <= n pieces over IL_PIECES."""
    hkey, plural, total = arg
    p = core.Part()
    for k in range(total + 1):
        for s in itertools.product(range(len(IL_PIECES)), repeat=k):
            plurs = [None] if plural == "none" else [()] + [(i,) for i in range(len(IL_PIECES))]
            for pl in plurs:
                case = Case(False, hkey, plural, s, pl, "il")
                p.count("inline_ws_templates")
                for cfg in CONFIGS:
                    p.evals += 1
                    fails, tags = check_case(case, cfg, extract=not cfg[1])
                    if fails:
                        report(p, case, cfg, fails)
                    if "syntax-error" in tags:
                        p.count("illegal_blocks_rejected")
                    else:
                        p.count("renders", len(COUNTS))
                        p.sig((cfg_name(cfg), "il", tuple(features(case)), tuple(tags)))
                p.sample({"source": case.source()}, cap=1)
    return p


# --------------------------------------------------------------------------- definition site vs call site
# A trans block inside a macro / call body that is WRITTEN where autoescaping is off and INVOKED inside a
# constant {% autoescape true %} region (or the other way round).  The property: old-style and new-style
# gettext produce the same text; and for macro results the autoescape setting is the runtime one at the call
# (docs, api.rst "Evaluation Context": the setting can change at runtime, check eval_ctx not the environment).

SITES = {
    # name: (template with T for the trans block, « » the constant region, R-i18n wrapper or None)
    "macro": ("{% macro m() %}T{% endmacro %}«{{ m() }}»", "%s"),
    "macro-arg": ("{% macro m(e) %}T{% endmacro %}«{{ m(e) }}»", "%s"),
    "call-body": ("{% macro m() %}({{ caller() }}){% endmacro %}«{% call m() %}T{% endcall %}»", "(%s)"),
    "caller-in-region": ("{% macro m() %}«({{ caller() }})»{% endmacro %}{% call m() %}T{% endcall %}", "(%s)"),
    "nested-macro": ("{% macro m() %}{% macro k() %}T{% endmacro %}{{ k() }}{% endmacro %}«{{ m() }}»", "%s"),
    "self-block": ("{% block b %}T{% endblock %}«{{ self.b() }}»", None),
    "block-in-region": ("«{% block b %}T{% endblock %}»", None),
    "set-block": ("{% set s %}T{% endset %}«{{ s }}»", None),
    "region-only": ("«T»", "%s"),
}
SITE_DIRECTIONS = (("off->on", False, "true"), ("on->off", True, "false"))


def shard_sites(arg):
    site, total = arg
    p = core.Part()
    tmpl, wrap = SITES[site]
    for hkey in ("none", "x", "n"):
        for plural in ("none", "implicit"):
            for ctxs in (False, True):
                for s, pl in bodies(len(IL_SITE_PIECES), total, plural):
                    case = Case(ctxs, hkey, plural, s, pl, "site")
                    if case.ambiguous():
                        continue
                    for dname, env_auto, region in SITE_DIRECTIONS:
                        p.evals += 1
                        src = tmpl.replace("T", case.source()).replace("«", "{% autoescape " + region + " %}") \
                                  .replace("»", "{% endautoescape %}")
                        outs = {}
                        bad = None
                        for new in (False, True):
                            rec: list = []
                            env = make_env((new, env_auto, False), rec)
                            try:
                                with core.alarm(10):
                                    t = env.from_string(src)
                                    outs[new] = [t.render(render_ctx(c)) for c in COUNTS]
                            except core.CaseTimeout:
                                outs[new] = "timeout"
                            except Exception as e:  # noqa: BLE001
                                outs[new] = "%s" % type(e).__name__
                        m0 = model(case, (False, True, False), 0)
                        if m0[0] == "error":
                            if not (isinstance(outs[False], str) and isinstance(outs[True], str)):
                                bad = ("accepted-illegal", "illegal block compiled: %r" % (outs,))
                            p.count("illegal_blocks_rejected")
                        elif outs[False] != outs[True]:
                            bad = ("style-disagree", "old-style rendered %r, new-style %r" % (outs[False], outs[True]))
                        elif isinstance(outs[False], str):
                            bad = ("render-error:" + outs[False], "both styles raised %s" % outs[False])
                        elif wrap is not None and dname == "off->on":
                            # runtime setting at the call: values escaped, block text not
                            exp = [wrap % model(case, (False, True, False), c)[1] for c in COUNTS]
                            if outs[False] != exp:
                                bad = ("render-mismatch", "rendered %r, expected %r" % (outs[False], exp))
                        if m0[0] != "error":
                            p.sig(("site", site, dname, tuple(features(case)),
                                   "&lt;" in "".join(outs[False]) if not isinstance(outs[False], str) else None))
                        if bad:
                            p.violation("C33/site/%s/%s/%s" % (bad[0], site, dname), {
                                "msg": "env autoescape=%s %r: %s" % (env_auto, src, bad[1]),
                                "source": src, "env_autoescape": env_auto,
                                "script": "from checks import c33\nc33.replay_site(%r, %r)\n" % (src, env_auto),
                            })
                        p.sample({"source": src, "env_autoescape": env_auto, "old_style": outs[False],
                                  "new_style": outs[True]}, cap=1)
    return p


def replay_site(src, env_auto):
    core.import_all_jinja()
    print("Environment(autoescape=%s, extensions=['jinja2.ext.i18n'])" % env_auto, repr(src))
    for new in (False, True):
        env = make_env((new, env_auto, False), [])
        for c in COUNTS:
            try:
                out = env.from_string(src).render(render_ctx(c))
            except Exception as e:  # noqa: BLE001
                out = "%s: %s" % (type(e).__name__, e)
            print("newstyle=%s count=%d -> %r" % (new, c, out))


# --------------------------------------------------------------------------- spellings of the babel options
# babel passes option values as strings from a mapping file; babel_extract's boolean options are read case
# insensitively ({1, on, yes, true}); str(True) == "True" is the usual spelling.
TRUE_SPELLINGS = ("1", "on", "yes", "true", "True", "TRUE", "On", "ON", "Yes", "YES")
FALSE_SPELLINGS = ("0", "off", "no", "false", "False", "FALSE", "Off", "No", "")
OPTION_KEYS = ("trimmed", "newstyle_gettext", "trim_blocks", "lstrip_blocks")
OPTION_SOURCES = (
    "{% trans %}\n  a\n  b\n{% endtrans %}",
    "{% trans %}a  \n\tb{% endtrans %}",
    "{% trans %}50%{% endtrans %}",
    "{% trans %}%s %(x)s %%{% endtrans %}",
    "{% trans %}\n  50% {{ x }}\n  {% endtrans %}",
    "{% trans n=count %}\n  one %\n  {% pluralize %}\n  {{ n }} %\n  {% endtrans %}",
    "{% trans \"ctx\" %}\n  50%\n  {% endtrans %}",
    "{% trans \"ctx\" n=count %}\n  a{% pluralize %}b%\n  {% endtrans %}",
    "{% trans notrimmed %}\n  a\n{% endtrans %}",
)


def shard_options(key):
    """babel_extract with every spelling of one boolean option == the strings gettext receives when rendering with
    the corresponding Environment setting."""
    import jinja2.ext as ext

    p = core.Part()
    for src in OPTION_SOURCES:
        for value, spellings in ((True, TRUE_SPELLINGS), (False, FALSE_SPELLINGS)):
            # the corresponding rendering environment
            cfg = (value if key == "newstyle_gettext" else False, False, value if key == "trimmed" else False)
            ws = (value if key == "trim_blocks" else False, value if key == "lstrip_blocks" else False)
            rec: list = []
            env = make_env(cfg, rec, ws)
            try:
                with core.alarm(10):
                    t = env.from_string(src)
                    for c in COUNTS:
                        t.render(render_ctx(c))
            except (Exception, core.CaseTimeout) as e:  # the fixed sources are legal and must render
                p.evals += 1
                p.violation("C33/render-error:%s/%s/option-source" % (type(e).__name__, cfg_name(cfg)), {
                    "msg": "%s%s %r: %s: %s" % (cfg_name(cfg), ws_name(ws), src, type(e).__name__, e),
                    "source": src, "config": cfg_name(cfg),
                    "script": "from checks import c33\nc33.replay_site(%r, False)\n" % (src,),
                })
                continue
            passed = {(f, norm_msg(f, a)) for f, a in rec}
            for sp in spellings:
                p.evals += 1
                try:
                    got = {(f, norm_msg(f, (m,) if (isinstance(m, str) or m is None) else m))
                           for _, f, m, _ in ext.babel_extract(io.BytesIO(src.encode("utf-8")), ext.GETTEXT_FUNCTIONS,
                                                               [], {key: sp, "silent": "false"})}
                except Exception as e:  # noqa: BLE001
                    got = {("error", (type(e).__name__,))}
                p.sig((key, value, src, sorted(got, key=repr) == sorted(passed, key=repr), len(passed)))
                if got != passed:
                    p.violation("C33/babel-option-spelling/%s/%s" % (key, "true" if value else "false"), {
                        "msg": "babel_extract(options={%r: %r}) on %r gave %r; rendering with %s=%s passes %r to gettext"
                               % (key, sp, src, sorted(got, key=repr), key, value, sorted(passed, key=repr)),
                        "source": src, "option": key, "spelling": sp,
                        "script": "import io, jinja2.ext as ext\nprint(list(ext.babel_extract(io.BytesIO(%r.encode()), "
                                  "ext.GETTEXT_FUNCTIONS, [], {%r: %r})))\n" % (src, key, sp),
                    })
            p.sample({"source": src, "option": key, "value": value, "messages_passed_to_gettext":
                      sorted(passed, key=repr)}, cap=1)
    return p


def shard_ws(arg):
    """whitespace family: trim_blocks x lstrip_blocks in the rendering environment and in the babel options."""
    ctx, hkey, plural, mid_len, ws = arg
    p = core.Part()
    plurs = list(ws_bodies(min(mid_len, 1))) if plural != "none" else [None]
    for s in ws_bodies(mid_len):
        for pl in plurs:
            case = Case(ctx, hkey, plural, s, pl, "ws", ws)
            p.count("ws_templates")
            for cfg in CONFIGS:
                p.evals += 1
                fails, tags = check_case(case, cfg, extract=not cfg[1])
                if fails:
                    report(p, case, cfg, fails)
                if "syntax-error" in tags:
                    p.count("illegal_blocks_rejected")
                else:
                    p.count("renders", len(COUNTS))
                    p.sig((cfg_name(cfg), ws, tuple(features(case)), tuple(tags)))
            p.sample({"source": case.source(), "trim_blocks": ws[0], "lstrip_blocks": ws[1],
                      "expected_count_1_oldstyle": model(case, (False, False, False), 1)[1:2]}, cap=1)
    return p


def shard_calls(arg):
    func, total = arg
    p = core.Part()
    for k in range(1, total + 1):
        for idxs in itertools.product(range(len(CALL_PIECES)), repeat=k):
            for cfg in CONFIGS:
                if cfg[2]:
                    continue  # the policy only concerns trans blocks
                src, expect = call_case(func, idxs, cfg[0])
                p.evals += 1
                fails, tags = evaluate(src, lambda c: expect(c, cfg), cfg, extract=not cfg[1])
                p.count("call_templates")
                for kind, msg in fails[:1]:
                    p.violation("C33/call/%s/%s/%s" % (kind, cfg_name(cfg), func), {
                        "msg": "%s %r: %s" % (cfg_name(cfg), src, msg), "source": src, "config": cfg_name(cfg),
                        "script": "from checks import c33\nc33.replay_call(%r, %r, %r)\n" % (func, idxs, cfg),
                    })
                p.sig(("call", func, cfg_name(cfg), "%" in src, "<" in src, tuple(tags)))
            p.sample({"source": call_case(func, idxs, True)[0]}, cap=1)
    return p


def replay_call(func, idxs, cfg):
    core.import_all_jinja()
    src, expect = call_case(func, tuple(idxs), cfg[0])
    print(cfg_name(tuple(cfg)), repr(src))
    print(evaluate(src, lambda c: expect(c, tuple(cfg)), tuple(cfg)))


def run(ctx: core.Ctx):
    core.import_all_jinja()
    total = 2 if ctx.quick else 3
    ctx.rule = ("every trans block with <= %d body pieces (singular+plural) over a 10-piece alphabet x 9 headers x 3 "
                "pluralize forms x context string, and every direct gettext call over 6 message pieces, under 8 "
                "configurations (style x autoescape x trimmed policy) x counts 0/1/2; non-trivial = compiled and "
                "rendered; distinct = (configuration, feature set of the block, which plural form each count selected)"
                % total)
    ctx.assumptions += [
        "identity translations: gettext returns the message, ngettext the singular iff n == 1",
        "CALIBRATED: with no variable bound in the trans tag the count of an implicit pluralize is the first variable "
        "used in the singular text; pluralize with no variable at all, or with an explicit name not bound in the tag, "
        "is a TemplateSyntaxError",
        "CALIBRATED: the result of an old-style gettext() expression is a plain string and is escaped as a whole "
        "under autoescape (trans blocks are template text and are not)",
        "bodies whose adjacent pieces would spell a delimiter ({{, {%, {#) are skipped (counted)",
        "definition-site/call-site family: old-style and new-style output must be identical for every structure and "
        "direction; the absolute R-i18n expectation (values escaped, block text not) is asserted for macro / call-body "
        "structures written with autoescape off and invoked inside {% autoescape true %} (runtime setting at the call)",
        "CALIBRATED: babel_extract's boolean options are read case-insensitively with true = {1, on, yes, true} "
        "(the tree's getbool; babel passes mapping-file strings such as 'True'); for every spelling the extracted "
        "message set must equal the set of strings gettext receives from the equally configured environment",
        "extraction is compared as a set of (function, string arguments) ignoring line numbers and comments",
        "whitespace family: trim_blocks/lstrip_blocks are set identically on the rendering Environment and in the "
        "babel_extract options ('true'/'false' strings); the model removes the first newline after a block tag "
        "(trim_blocks) and the spaces from the beginning of a line to the next block tag (lstrip_blocks) as "
        "documented under Whitespace Control",
    ]
    shards = []
    for c in (False, True):
        for hk in HEADERS:
            for pl in PLURAL:
                shards.append((shard_trans, (c, hk, pl, total, False)))
        for hk in NUM_HEADERS:
            for pl in PLURAL:
                shards.append((shard_trans, (c, hk, pl, total + 1, True)))
    for ws in WS_OPTS:
        for hk in ("none", "n", "trimmed", "x"):
            for pl in ("none", "implicit"):
                for c in ((False,) if ctx.quick else (False, True)):
                    shards.append((shard_ws, (c, hk, pl, 1 if ctx.quick else 2, ws)))
    for hk, pl in (("trimmed", "none"), ("none", "none"), ("notrimmed", "none"), ("trimmed-n", "implicit")):
        shards.append((shard_inline, (hk, pl, 3 if ctx.quick else 4)))
    for site in SITES:
        shards.append((shard_sites, (site, 2 if ctx.quick else 3)))
    for key in OPTION_KEYS:
        shards.append((shard_options, key))
    for f in CALL_FUNCS:
        shards.append((shard_calls, (f, 3 if ctx.quick else 4)))
    ctx.pmap(_dispatch, shards)
    ctx.cov["bounds"] = {"tier": ctx.tier, "pieces_per_block": total, "alphabet": [s for s, _ in PIECES],
                         "headers": list(HEADERS), "pluralize": list(PLURAL), "configurations": len(CONFIGS),
                         "counts": list(COUNTS), "whitespace_family": {"trim_blocks x lstrip_blocks": 4,
                                                                        "middle_pieces": 1 if ctx.quick else 2,
                                                                        "headers": ["none", "n", "trimmed", "x"]}, "call_message_pieces": 3 if ctx.quick else 4}


def _dispatch(arg):
    fn, a = arg
    return fn(a)
