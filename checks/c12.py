"""C12 — whitespace control follows the documented trimming rules."""
from __future__ import annotations

from vf import core, gen_ws as g

META = {
    "level": "exploration",
    "engine": "E1",
    "technique": "bounded-exhaustive enumeration of structural template skeletons (text chunks x tags x every admitted "
    "-/+ modifier) rendered under all four trim_blocks/lstrip_blocks settings against an independent reference "
    "whitespace model (R-ws) that works on the skeleton, never on source text",
    "text": "Every skeleton with <= 2 tags (thorough: <= 3) over a chunk alphabet of empty/word/space/tab/newline "
    "mixtures and the tag kinds block, comment, variable and raw pair, with every combination of '-', '+' and no "
    "modifier the grammar admits on each tag side, is printed to source, rendered by a fresh Environment under "
    "each of the four trim/lstrip settings and compared with the output R-ws predicts from the documented rules "
    "(docs/templates.rst 'Whitespace Control').",
    "note": "Bounded: chunk alphabet of 10 (thorough 13: adds NBSP, VT and a double line break) strings plus a reduced product over 4 chunks with form feed / vertical tab / NBSP / EM SPACE in both tiers, <= 3 tags, one statement form per "
    "tag kind; in 2-tag skeletons raw pairs vary only the modifiers facing their neighbours and the outer chunks of "
    "the quick tier come from a 5-string sub-alphabet (the middle chunk from the full one). Four reference rules "
    "are calibrated on the pinned tree where the docs are silent (see assumptions). newline_sequence and "
    "keep_trailing_newline are at their defaults here (C11 varies them).",
    "design_ref": "DESIGN.md §4 C12, §3 R-ws",
}

RAW_BODY_A = " \n a\n  "  # leading newline (never trimmed), trailing indentation (lstrip of endraw)


def phases(quick):
    """[(name, ntags, chunk_slots, tagset)]"""
    raw2 = [("raw", m, "", RAW_BODY_A, "", m) for m in ("", "-")]
    # non space/tab whitespace (K1) in both tiers: reduced product
    ws = [
        ("1tag/unicode-ws", 1, [g.CHUNKS_WS, g.CHUNKS_WS], g.tags("full", g.CHUNKS_WS)),
        ("2tags/unicode-ws", 2, [("", "\xa0"), g.CHUNKS_WS, ("", "\n\x0b")], g.tags("none") + raw2),
    ]
    if quick:
        full = g.CHUNKS
        return [
            ("0tags", 0, [full], []),
            ("1tag/full", 1, [full, full], g.tags("full", full)),
            ("2tags/mid-full-mid", 2, [g.CHUNKS_MID, full, g.CHUNKS_MID], g.tags("outer", (RAW_BODY_A,))),
        ] + ws
    full = g.CHUNKS + g.CHUNKS_EXTRA
    return ws + [
        ("0tags", 0, [full], []),
        ("1tag/full", 1, [full, full], g.tags("full", full)),
        ("2tags/full", 2, [full] * 3, g.tags("outer", (RAW_BODY_A,))),
        ("3tags/small", 3, [g.CHUNKS_SMALL] * 4, g.tags("none") + raw2),
    ]


def render(src, trim, lstrip):
    from jinja2 import Environment

    return Environment(trim_blocks=trim, lstrip_blocks=lstrip).from_string(src).render()


def tag_label(t):
    if t[0] == "raw":
        return f"raw[{t[1]}|{t[2]}|{t[4]}|{t[5]}]"
    return f"{t[0]}[{t[1]}|{t[2]}]"


def shard(arg) -> core.Part:
    quick, phase_idx, k, n = arg
    name, ntags, slots, tagset = phases(quick)[phase_idx]
    p = core.Part()
    for sk in g.skeletons(ntags, tagset=tagset, shard=k, nshards=n, chunk_slots=slots):
        src = g.to_source(sk)
        labels = "+".join(tag_label(t) for t in sk[1::2])
        for trim, lstrip in g.SETTINGS:
            p.evals += 1
            frags = g.layout(sk, trim, lstrip)
            exp = "".join(f[2] for f in frags)
            roles = tuple(f[1] for f in frags if f[1] in ("lcut", "rcut", "eof"))
            try:
                got = render(src, trim, lstrip)
            except Exception as e:  # noqa: BLE001
                got = ("exc", type(e).__name__, str(e))
            if roles:
                p.sig((labels, trim, lstrip, roles))
            if got != exp:
                p.violation(f"C12/trim={int(trim)},lstrip={int(lstrip)}/{labels}", {
                    "msg": f"source {src!r} trim_blocks={trim} lstrip_blocks={lstrip}: rendered {got!r}, "
                           f"documented rules give {exp!r}",
                    "skeleton": g.jsonable(sk), "source": src, "got": repr(got), "expected": exp, "size": len(src),
                    "script": "import jinja2\n"
                              f"src = {src!r}\n"
                              f"print(repr(jinja2.Environment(trim_blocks={trim}, lstrip_blocks={lstrip})"
                              ".from_string(src).render()))\n"
                              f"print('documented rules give', {exp!r})\n",
                })
        p.sample({"skeleton": g.jsonable(sk), "source": src}, cap=1)
    p.count("skeletons/" + name, p.evals // 4)
    return p


def run(ctx: core.Ctx):
    core.import_all_jinja()
    ctx.rule = ("all skeletons (alternating text chunk / tag, every admitted modifier combination) per phase, each under "
                "the 4 trim/lstrip settings; non-trivial = R-ws removes at least one span; distinct = distinct "
                "(tag kinds+modifiers, setting, sequence of removed-span kinds lstrip/trim/eof)")
    ctx.assumptions += [
        "CALIBRATED K1: 'whitespace' is str.isspace (NBSP, VT strip like blanks); the docs say 'tabs and spaces' for lstrip_blocks",
        "CALIBRATED K2: the newline after an opening raw tag is never trimmed by trim_blocks",
        "CALIBRATED K3: lstrip_blocks applies to the endraw tag (removes the indentation ending the raw body's last line)",
        "CALIBRATED K4: the beginning of the template counts as the start of a line for lstrip_blocks",
        "one statement form per tag kind: {% set v = 1 %}, {# c #}, {{ \"V\" }}, {% raw %}body{% endraw %}",
    ]
    ph = phases(ctx.quick)
    shards = []
    bounds = {}
    for i, (name, ntags, slots, tagset) in enumerate(ph):
        total = len(tagset) ** ntags
        for s in slots:
            total *= len(s)
        n = max(1, min(192, len(tagset) ** ntags))
        shards += [(ctx.quick, i, k, n) for k in range(n)]
        bounds[name] = {"tags": ntags, "chunk_alphabet_sizes": [len(s) for s in slots], "tag_variants": len(tagset),
                        "skeletons": total, "renders": total * 4}
    ctx.cov["bounds"] = bounds
    ctx.pmap(shard, shards)
    ctx.viol.sort(key=lambda v: (v[0], v[1].get("size", 0), v[1].get("msg", "")))  # smallest input first per signature
    ctx.cov["shards_completed"] = len(shards)
    for name, b in bounds.items():
        if ctx.counters.get("skeletons/" + name, 0) != b["skeletons"]:
            raise core.HarnessError(f"phase {name}: enumerated {ctx.counters.get('skeletons/' + name)} of {b['skeletons']}")
