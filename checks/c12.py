"""C12 — whitespace control follows the documented trimming rules."""
from __future__ import annotations

from vf import core, gen_ws as g

META = {
    "level": "exploration",
    "engine": "E1",
    "technique": "bounded-exhaustive enumeration of structural template skeletons (text chunks x tags x every admitted "
    "-/+ modifier) rendered under all four trim_blocks/lstrip_blocks settings against an independent reference "
    "whitespace model (R-ws) that works on the skeleton, never on source text",
    "text": "Every skeleton with <= 2 tags (thorough: <= 3) over a chunk alphabet of empty/word/space/tab/newline "
    "mixtures and the tag kinds block, comment, variable and raw pair, with every combination of '-', '+' and no "
    "modifier the grammar admits on each tag side, is printed to source, rendered by a fresh Environment under "
    "each of the four trim/lstrip settings and compared with the output R-ws predicts from the documented rules "
    "(docs/templates.rst 'Whitespace Control').",
    "note": "Bounded: chunk alphabet of 10 (thorough 13: adds NBSP, VT and a double line break) strings plus a reduced product over 4 chunks with form feed / vertical tab / NBSP / EM SPACE in both tiers, <= 3 tags, one statement form per "
    "tag kind; in 2-tag skeletons raw pairs vary only the modifiers facing their neighbours and the outer chunks of "
    "the quick tier come from a 5-string sub-alphabet (the middle chunk from the full one). Four reference rules "
    "are calibrated on the pinned tree where the docs are silent (see assumptions). newline_sequence and "
    "keep_trailing_newline is at its default here (C11 varies it); newline_sequence \\r\\n / \\r and selecting the "
    "setting through overlay() after the parent loaded the template are covered on reduced products.",
    "design_ref": "DESIGN.md §4 C12, §3 R-ws",
}

RAW_BODY_A = " \n a\n  "  # leading newline (never trimmed), trailing indentation (lstrip of endraw)


def phases(quick):
    """[(name, ntags, chunk_slots, tagset)]"""
    raw2 = [("raw", m, "", RAW_BODY_A, "", m) for m in ("", "-")]
    # non space/tab whitespace (K1) in both tiers: reduced product
    ws = [
        ("1tag/unicode-ws", 1, [g.CHUNKS_WS, g.CHUNKS_WS], g.tags("full", g.CHUNKS_WS)),
        ("2tags/unicode-ws", 2, [("", "\xa0"), g.CHUNKS_WS, ("", "\n\x0b")], g.tags("none") + raw2),
    ]
    ws += [
        # every line break is emitted as newline_sequence, and whitespace control is unaffected by it
        ("1tag/newline-seq", 1, [g.CHUNKS_MID, g.CHUNKS_MID], g.tags("outer", (RAW_BODY_A,)), "nlseq"),
        ("2tags/newline-seq", 2, [("",), g.CHUNKS_SMALL, ("", "\n  ")], g.tags("none") + raw2, "nlseq2"),
        # the trim/lstrip setting selected by overlay() after the parent has loaded the template by name
        ("1tag/overlay-after-load", 1, [g.CHUNKS_MID, g.CHUNKS_MID], g.tags("outer", (RAW_BODY_A,)), "overlay"),
        # the template starts with {% probe %}: an extension tag that uses another environment (lstrip_blocks flipped)
        # while this template is being parsed
        ("1tag/other-env-during-parse", 1, [g.CHUNKS_MID, g.CHUNKS_MID], g.tags("outer", (RAW_BODY_A,)), "interleave"),
    ]
    if quick:
        full = g.CHUNKS
        return [
            ("0tags", 0, [full], []),
            ("1tag/full", 1, [full, full], g.tags("full", full)),
            ("2tags/mid-full-mid", 2, [g.CHUNKS_MID, full, g.CHUNKS_MID], g.tags("outer", (RAW_BODY_A,))),
        ] + ws
    full = g.CHUNKS + g.CHUNKS_EXTRA
    return ws + [
        ("0tags", 0, [full], []),
        ("1tag/full", 1, [full, full], g.tags("full", full)),
        ("2tags/full", 2, [full] * 3, g.tags("outer", (RAW_BODY_A,))),
        ("3tags/small", 3, [g.CHUNKS_SMALL] * 4, g.tags("none") + raw2),
    ]


_PROBE_EXT = []


def probe_extension():
    """An extension whose tag {% probe %} uses ANOTHER environment (same options except lstrip_blocks flipped)
    while the template that contains the tag is still being parsed (the parser pulls tokens lazily)."""
    if not _PROBE_EXT:
        import jinja2
        from jinja2 import nodes
        from jinja2.ext import Extension

        class ProbeExtension(Extension):
            tags = {"probe"}

            def parse(self, parser):
                lineno = next(parser.stream).lineno
                e = self.environment
                other = jinja2.Environment(trim_blocks=e.trim_blocks, lstrip_blocks=not e.lstrip_blocks,
                                           newline_sequence=e.newline_sequence)
                other.from_string("  {% set q = 1 %}\nx").render()
                return nodes.Output([nodes.TemplateData("")]).set_lineno(lineno)

        _PROBE_EXT.append(ProbeExtension)
    return _PROBE_EXT[0]


PROBE_TAG = ("block", "", "", " probe ")


def render(src, trim, lstrip, ns="\n", via="from_string"):
    import jinja2

    if via == "other-env-during-parse":
        return jinja2.Environment(trim_blocks=trim, lstrip_blocks=lstrip, newline_sequence=ns,
                                  extensions=[probe_extension()]).from_string(src).render()
    if via == "from_string":
        return jinja2.Environment(trim_blocks=trim, lstrip_blocks=lstrip, newline_sequence=ns).from_string(src).render()
    # the setting is selected with overlay() after the linked environment has loaded the same template by name
    base = jinja2.Environment(loader=jinja2.DictLoader({"t": src}), newline_sequence=ns)
    base.get_template("t").render()
    return base.overlay(trim_blocks=trim, lstrip_blocks=lstrip).get_template("t").render()


# (newline_sequence, line-break form of the source, how the setting is selected) per phase mode
MODES = {
    "plain": [("\n", "\n", "from_string")],
    "nlseq": [("\r\n", "\n", "from_string"), ("\r", "\n", "from_string"), ("\r\n", "\r\n", "from_string")],
    "nlseq2": [("\r\n", "\n", "from_string"), ("\r", "\n", "from_string")],
    "overlay": [("\n", "\n", "overlay-after-load"), ("\r\n", "\n", "overlay-after-load")],
    "interleave": [("\n", "\n", "other-env-during-parse")],
}


def tag_label(t):
    if t[0] == "raw":
        return f"raw[{t[1]}|{t[2]}|{t[4]}|{t[5]}]"
    return f"{t[0]}[{t[1]}|{t[2]}]"


def shard(arg) -> core.Part:
    quick, phase_idx, k, n = arg
    name, ntags, slots, tagset, *rest = phases(quick)[phase_idx]
    mode = rest[0] if rest else "plain"
    variants = MODES[mode]
    p = core.Part()
    nsk = 0
    for sk in g.skeletons(ntags, tagset=tagset, shard=k, nshards=n, chunk_slots=slots):
        nsk += 1
        if mode == "interleave":
            sk = ("", PROBE_TAG) + sk  # {% probe %} is a block tag that renders nothing
        src_n = g.to_source(sk)
        labels = "+".join(tag_label(t) for t in sk[1::2])
        for trim, lstrip in g.SETTINGS:
            frags = g.layout(sk, trim, lstrip)
            exp_n = "".join(f[2] for f in frags)
            roles = tuple(f[1] for f in frags if f[1] in ("lcut", "rcut", "eof"))
            for ns, form, via in variants:
                p.evals += 1
                src = src_n if form == "\n" else src_n.replace("\n", form)
                exp = exp_n if ns == "\n" else exp_n.replace("\n", ns)  # every line break comes out as newline_sequence
                try:
                    got = render(src, trim, lstrip, ns, via)
                except Exception as e:  # noqa: BLE001
                    got = ("exc", type(e).__name__, str(e))
                if roles:
                    p.sig((labels, trim, lstrip, roles, ns, via))
                if got != exp:
                    extra = "" if (ns, form, via) == ("\n", "\n", "from_string") else f"/nl={ns!r},{via}"
                    p.violation(f"C12/trim={int(trim)},lstrip={int(lstrip)}{extra}/{labels}", {
                        "msg": f"source {src!r} trim_blocks={trim} lstrip_blocks={lstrip} newline_sequence={ns!r} "
                               f"({via}): rendered {got!r}, documented rules give {exp!r}",
                        "skeleton": g.jsonable(sk), "source": src, "got": repr(got), "expected": exp, "size": len(src),
                        "script": "from checks import c12\n"
                                  f"print(repr(c12.render({src!r}, {trim}, {lstrip}, {ns!r}, {via!r})))\n"
                                  f"print('documented rules give', {exp!r})\n"
                                  "# c12.render: Environment(trim_blocks, lstrip_blocks, newline_sequence).from_string(src).render(),\n"
                                  "# or (overlay-after-load) base env with DictLoader loads 't', then base.overlay(trim_blocks=, "
                                  "lstrip_blocks=).get_template('t').render()\n",
                    })
        p.sample({"skeleton": g.jsonable(sk), "source": src_n, "phase": name}, cap=1)
    p.count("skeletons/" + name, nsk)
    return p


def run(ctx: core.Ctx):
    core.import_all_jinja()
    ctx.rule = ("all skeletons (alternating text chunk / tag, every admitted modifier combination) per phase, each under "
                "the 4 trim/lstrip settings; non-trivial = R-ws removes at least one span; distinct = distinct "
                "(tag kinds+modifiers, setting, sequence of removed-span kinds lstrip/trim/eof)")
    ctx.assumptions += [
        "CALIBRATED K1: 'whitespace' is str.isspace (NBSP, VT strip like blanks); the docs say 'tabs and spaces' for lstrip_blocks",
        "CALIBRATED K2: the newline after an opening raw tag is never trimmed by trim_blocks",
        "CALIBRATED K3: lstrip_blocks applies to the endraw tag (removes the indentation ending the raw body's last line)",
        "CALIBRATED K4: the beginning of the template counts as the start of a line for lstrip_blocks",
        "one statement form per tag kind: {% set v = 1 %}, {# c #}, {{ \"V\" }}, {% raw %}body{% endraw %}",
    ]
    ph = phases(ctx.quick)
    shards = []
    bounds = {}
    for i, (name, ntags, slots, tagset, *rest) in enumerate(ph):
        total = len(tagset) ** ntags
        for s in slots:
            total *= len(s)
        n = max(1, min(192, len(tagset) ** ntags))
        shards += [(ctx.quick, i, k, n) for k in range(n)]
        bounds[name] = {"tags": ntags, "chunk_alphabet_sizes": [len(s) for s in slots], "tag_variants": len(tagset),
                        "skeletons": total, "renders": total * 4 * len(MODES[rest[0] if rest else "plain"]),
                        "variants(newline_sequence, source line-break form, how the setting is selected)":
                            [list(v) for v in MODES[rest[0] if rest else "plain"]]}
    ctx.cov["bounds"] = bounds
    ctx.pmap(shard, shards)
    ctx.viol.sort(key=lambda v: (v[0], v[1].get("size", 0), v[1].get("msg", "")))  # smallest input first per signature
    ctx.cov["shards_completed"] = len(shards)
    for name, b in bounds.items():
        if ctx.counters.get("skeletons/" + name, 0) != b["skeletons"]:
            raise core.HarnessError(f"phase {name}: enumerated {ctx.counters.get('skeletons/' + name)} of {b['skeletons']}")
