"""C07 — the loop variable reports correct iteration state for every iterable.

(i)  explicit-state model checking (vf/e2.py) of the real jinja2.runtime.LoopContext
     and AsyncLoopContext against R-loop;
(ii) bounded-exhaustive template-level enumeration ({% for %} with every tuple of
     loop queries per iteration, loop filters, else, recursive) against R-loop.
"""
from __future__ import annotations

import itertools

from vf import core, e2

META = {
    "level": "model_checking",
    "engine": "E2+E1",
    "technique": "explicit-state BFS to a fixpoint over the real LoopContext/AsyncLoopContext in lock-step with a "
    "reference loop model (every query and advance on every reachable state), plus bounded-exhaustive enumeration of "
    "for-loop templates (all query tuples x iterable forms x loop filters x else x recursive trees, sync and async)",
    "text": "State graph: transitions advance + 15 queries (index index0 revindex revindex0 first last length previtem "
    "nextitem depth depth0 cycle/2 cycle/3 changed(item key) changed(const)) on LoopContext over list, tuple, "
    "iter(list), generator, dict-keys view, unsized re-iterable class and on AsyncLoopContext over the same plus an async generator and an async re-iterable class, lengths 0-6 "
    "(quick 0-4); canonical state = (done, index0, peeked item, cached length, items still in the iterator, _before, "
    "_current, _last_changed_value); every transition is compared with R-loop computed from (items, position) per the "
    "table in templates.rst 'For', and the implementation state with the model's abstraction, so the visited items "
    "equal the input once and in order under every order/repetition of look-ahead queries.  Templates: every ordered "
    "pair (thorough: triple) of queries per iteration in {% for %} bodies over the same iterable forms, with and "
    "without loop filter and else, recursive loops over all forests of <= 5 nodes and depth <= 3, in sync and "
    "enable_async environments; loops with else left through {% break %}/{% continue %} (loopcontrols extension, "
    "unconditional and conditional on the item): else iff no item passed the filter, break ends the visit sequence; "
    "loops whose only use of `loop` sits in a {% block scoped %} placed directly, inside if or inside with, alone and "
    "nested in an outer loop that uses its own `loop`; outer loops whose only use of `loop` is in an inner loop's filter "
    "or else branch.  Iterable forms include unsized re-iterable classes (__iter__ / async-generator __aiter__, no __len__).",
    "note": "Queries are enabled only between the first successful advance and exhaustion (the loop body); items are "
    "distinct ints, changed() is fed item//2 so that equal consecutive keys occur; async code is driven to completion "
    "by hand (nothing suspends), a subset additionally through Template.render/asyncio.run.",
    "design_ref": "DESIGN.md §4 C07, §3 E2, R-loop",
}

QUERIES = ("index", "index0", "revindex", "revindex0", "first", "last", "length", "previtem", "nextitem",
           "depth", "depth0", "cycle2", "cycle3", "changed_item", "changed_const")
SYNC_FORMS = ("list", "tuple", "iter", "gen", "view", "reiter")
ASYNC_FORMS = SYNC_FORMS + ("agen", "reaiter")
UNSIZED = ("iter", "gen", "agen", "reiter", "reaiter")


class ReIter:
    """unsized iterable that can be iterated repeatedly (fresh iterator each time, no __len__)."""

    def __init__(self, items):
        self._items = list(items)

    def __iter__(self):
        return iter(list(self._items))

    def __repr__(self):
        return "ReIter(%r)" % (self._items,)


class ReAIter:
    """unsized async iterable that can be iterated repeatedly (__aiter__ is an async generator method)."""

    def __init__(self, items):
        self._items = list(items)

    async def __aiter__(self):
        for x in self._items:
            yield x

    def __repr__(self):
        return "ReAIter(%r)" % (self._items,)
UNDEF = ("undef",)
MISSING = "missing"


def items_of(n):
    return [10 + i for i in range(n)]


# ---------------------------------------------------------------- R-loop


class RefLoop:
    """Loop state specification from docs/templates.rst "For": everything is a
    function of (items, position); `changed` additionally remembers the value
    it was last called with."""

    def __init__(self, items, depth0=0):
        self.items = list(items)
        self.n = len(self.items)
        self.depth0 = depth0
        self.pos = -1
        self.done = False
        self.last_changed = MISSING
        # bookkeeping mirrored for the state comparison only (not observable)
        self.peeked = False
        self.len_cached = False

    def advance(self):
        if self.pos + 1 < self.n:
            self.pos += 1
            self.peeked = False
            return ("item", self.items[self.pos])
        self.done = True
        return ("stop",)

    def query(self, q, cur_key=None):
        pos, n, items = self.pos, self.n, self.items
        if q == "index":
            return pos + 1
        if q == "index0":
            return pos
        if q == "revindex":
            self.len_cached = True
            return n - pos
        if q == "revindex0":
            self.len_cached = True
            return n - pos - 1
        if q == "first":
            return pos == 0
        if q == "last":
            self.peeked = self.peeked or pos + 1 < n
            return pos == n - 1
        if q == "length":
            self.len_cached = True
            return n
        if q == "previtem":
            return items[pos - 1] if pos >= 1 else UNDEF
        if q == "nextitem":
            self.peeked = self.peeked or pos + 1 < n
            return items[pos + 1] if pos + 1 < n else UNDEF
        if q == "depth":
            return self.depth0 + 1
        if q == "depth0":
            return self.depth0
        if q == "cycle2":
            return ("a", "b")[pos % 2]
        if q == "cycle3":
            return ("a", "b", "c")[pos % 3]
        if q in ("changed_item", "changed_const"):
            val = (cur_key,) if q == "changed_item" else ("K",)
            if self.last_changed != val:
                self.last_changed = val
                return True
            return False
        raise AssertionError(q)

    def abs(self):
        pos, items = self.pos, self.items
        after = items[pos + 1] if self.peeked else MISSING
        rest = tuple(items[pos + 1 + (1 if self.peeked else 0):])
        return (self.done, pos, after, self.n if self.len_cached else None, rest,
                items[pos - 1] if pos >= 1 else MISSING, items[pos] if pos >= 0 else MISSING, self.last_changed)


# ---------------------------------------------------------------- driving the implementation


def run_coro(coro):
    """run a coroutine that never really suspends to completion."""
    try:
        coro.send(None)
    except StopIteration as e:
        return e.value
    coro.close()
    raise core.HarnessError("coroutine suspended although nothing awaits the outside world")


async def _adrain(it):
    return [x async for x in it]


def make_iterable(form, items):
    items = list(items)
    if form == "list":
        return items
    if form == "tuple":
        return tuple(items)
    if form == "iter":
        return iter(items)
    if form == "gen":
        return (x for x in items)
    if form == "view":
        return dict.fromkeys(items).keys()
    if form == "reiter":
        return ReIter(items)
    if form == "reaiter":
        return ReAIter(items)
    if form == "agen":
        async def agen():
            for x in items:
                yield x
        return agen()
    raise AssertionError(form)


def _norm(v):
    from jinja2.runtime import Undefined

    if isinstance(v, Undefined):
        return UNDEF
    return v


def impl_query(lc, q, cur, is_async):
    import inspect

    if q == "cycle2":
        v = lc.cycle("a", "b")
    elif q == "cycle3":
        v = lc.cycle("a", "b", "c")
    elif q == "changed_item":
        v = lc.changed(cur // 2)
    elif q == "changed_const":
        v = lc.changed("K")
    else:
        v = getattr(lc, q)
    if is_async and inspect.iscoroutine(v):
        v = run_coro(v)
    return _norm(v)


def make_system(is_async, form, n):
    from jinja2.runtime import AsyncLoopContext, LoopContext, Undefined

    items = items_of(n)
    depth0 = n % 3

    def system():
        it = make_iterable(form, items)
        cls = AsyncLoopContext if is_async else LoopContext
        return {"lc": cls(it, Undefined, None, depth0), "m": RefLoop(items, depth0), "done": False, "async": is_async,
                "visited": []}

    return system


def step(s, op):
    lc, m = s["lc"], s["m"]
    if op[0] == "advance":
        try:
            if s["async"]:
                item, l2 = run_coro(lc.__anext__())
            else:
                item, l2 = next(lc)
            s["visited"].append(item)
            iobs = ("item", item) if l2 is lc else ("item", item, "foreign loop object")
        except (StopIteration, StopAsyncIteration):
            s["done"] = True
            iobs = ("stop",)
        except Exception as e:  # noqa: BLE001
            iobs = ("exc", type(e).__name__)
        return iobs, m.advance()
    q = op[0]
    cur = m.items[m.pos]
    try:
        iobs = impl_query(lc, q, cur, s["async"])
    except Exception as e:  # noqa: BLE001
        iobs = ("exc", type(e).__name__)
    return iobs, m.query(q, cur // 2)


def _ms(v):
    from jinja2.utils import missing

    return MISSING if v is missing else v


def canon(s):
    """destructive (drains the iterator): e2 never reuses a system after canon()."""
    lc = s["lc"]
    try:
        rest = tuple(run_coro(_adrain(lc._iterator))) if s["async"] else tuple(lc._iterator)
    except Exception as e:  # noqa: BLE001
        rest = ("exc", type(e).__name__)
    return (s["done"], lc.index0, _ms(lc._after), lc._length, rest, _ms(lc._before), _ms(lc._current),
            _ms(lc._last_changed_value))


OPS = (("advance",),) + tuple((q,) for q in QUERIES)


def enabled(s):
    if s["done"]:
        return ()
    if s["m"].pos < 0:
        return (("advance",),)
    return OPS


def _mc_script(is_async, form, n, hist):
    return ("from vf import core\ncore.import_all_jinja()\nfrom checks import c07\n"
            f"s = c07.make_system({is_async!r}, {form!r}, {n!r})()\n"
            f"for op in {[list(o) for o in hist]!r}:\n"
            "    i, m = c07.step(s, tuple(op))\n"
            "    print(op, 'impl:', i, 'R-loop:', m)\n"
            "print('visited', s['visited'])\nprint('impl state ', c07.canon(s))\nprint('model state', s['m'].abs())\n")


def mc_shard(arg) -> core.Part:
    is_async, form, n = arg
    p = core.Part()
    res = e2.explore(make_system(is_async, form, n), enabled, step, canon, lambda s: s["m"].abs(), merge_reps=2)
    p.evals += res.transitions
    p.count("states", res.states)
    p.count("transitions", res.transitions)
    p.count("merges_validated", res.merges_validated)
    p.count("configs", 1)
    p.counters["max_depth_%s_%s_n%d" % ("async" if is_async else "sync", form, n)] = res.max_depth
    if not res.fixpoint:
        p.count("no_fixpoint", 1)
    tag = "async" if is_async else "sync"
    for kd in res.obs_kinds:
        p.sig(("mc", tag) + kd)
    for h in res.sample_histories[:1]:
        if n >= 2:
            p.sample({"kind": "history reaching a new LoopContext state", "class": tag, "iterable": form, "length": n,
                      "history": h}, cap=1)
    for kind, hist, op, a, b in res.violations:
        what = op[0] if op else "init"
        unsized = form in UNSIZED
        p.violation(f"C07/mc/{tag}/{kind}/{what}/{'unsized' if unsized else 'sized'}", {
            "msg": f"{tag} LoopContext over {form} of {n} items, history={[o[-1] for o in hist]} op={op}: "
                   f"impl {a!r} != R-loop {b!r}",
            "script": _mc_script(is_async, form, n, list(hist) + ([op] if op else [])),
        })
    return p


def flat_shard(arg) -> core.Part:
    """dedup-free enumeration of every history of bounded length (cross-check of the state merging):
    besides observations, the items handed out must be a prefix of the input."""
    is_async, form, n, depth = arg
    p = core.Part()
    system = make_system(is_async, form, n)
    cnt = 0

    def rec(hist):
        nonlocal cnt
        s = system()
        bad = None
        for o in hist:
            i, m = step(s, o)
            if i != m:
                bad = (o, i, m)
        cnt += 1
        if s["visited"] != s["m"].items[:len(s["visited"])]:
            bad = bad or ("visited", s["visited"], s["m"].items)
        ops = enabled(s)
        c = canon(s)
        if c != s["m"].abs():
            bad = bad or ("state", c, s["m"].abs())
        if bad:
            p.violation(f"C07/flat/{'async' if is_async else 'sync'}/{bad[0] if isinstance(bad[0], str) else bad[0][-1]}", {
                "msg": f"{form} n={n} history={[o[-1] for o in hist]}: {bad!r}",
                "script": _mc_script(is_async, form, n, list(hist))})
        if len(hist) < depth:
            for o in ops:
                rec(hist + (o,))

    rec(())
    p.evals += cnt
    p.count("flat_histories", cnt)
    return p


# ---------------------------------------------------------------- template level

Q_SRC = {
    "index": "loop.index", "index0": "loop.index0", "revindex": "loop.revindex", "revindex0": "loop.revindex0",
    "first": "loop.first", "last": "loop.last", "length": "loop.length",
    "previtem": "loop.previtem|default('U')", "nextitem": "loop.nextitem|default('U')",
    "depth": "loop.depth", "depth0": "loop.depth0",
    "cycle2": "loop.cycle('a', 'b')", "cycle3": "loop.cycle('a', 'b', 'c')",
    "changed_item": "loop.changed(x // 2)", "changed_const": "loop.changed('K')",
}
Q_SRC_REC = dict(Q_SRC, previtem="(loop.previtem|default({'v': 'U'})).v", nextitem="(loop.nextitem|default({'v': 'U'})).v",
                 changed_item="loop.changed(x.v // 2)")


def fmt(v):
    if v is UNDEF:
        return "U"
    return str(v)


def flat_source(queries, filt, has_else):
    return ("{% for x in seq" + (" if x in keep" if filt else "") + " %}[{{ x }}"
            + "".join("|{{ " + Q_SRC[q] + " }}" for q in queries) + "]"
            + ("{% else %}ELSE" if has_else else "") + "{% endfor %}")


def ref_flat(items, keep, queries, has_else, depth0=0):
    vis = [x for x in items if keep is None or x in keep]
    rl = RefLoop(vis, depth0)
    out = []
    for pos, x in enumerate(vis):
        rl.pos = pos
        out.append("[%s" % x + "".join("|" + fmt(rl.query(q, x // 2)) for q in queries) + "]")
    if not vis and has_else:
        out.append("ELSE")
    return "".join(out)


def masks(n):
    """loop filters: None = no filter clause; otherwise the set of kept items."""
    items = items_of(n)
    out = [None]
    if n <= 3:
        for r in range(n + 1):
            out += [frozenset(c) for c in itertools.combinations(items, r)]
    else:
        out += [frozenset(items), frozenset(), frozenset(items[0::2]), frozenset(items[1::2]),
                frozenset(items[1:]), frozenset(items[:-1]), frozenset(items[:1]), frozenset(items[-1:])]
    return out


def render(tmpl, is_async, via_asyncio, **vars):
    if is_async and not via_asyncio:
        return run_coro(tmpl.render_async(**vars))
    return tmpl.render(**vars)


def _tmpl_script(src, is_async, setup):
    return ("import jinja2, asyncio\n" + setup +
            f"env = jinja2.Environment(enable_async={is_async!r})\n"
            f"print(repr(env.from_string({src!r}).render(**vars)))\n")


def _flat_setup(form, n, keep):
    body = {"list": "seq = items", "tuple": "seq = tuple(items)", "iter": "seq = iter(items)",
            "gen": "seq = (x for x in items)", "view": "seq = dict.fromkeys(items).keys()",
            "agen": "async def _ag():\n    for x in items:\n        yield x\nseq = _ag()",
            "reiter": "class R:\n    def __iter__(self):\n        return iter(list(items))\nseq = R()",
            "reaiter": "class R:\n    async def __aiter__(self):\n        for x in items:\n            yield x\nseq = R()"}[form]
    return (f"items = {items_of(n)!r}\n{body}\nvars = dict(seq=seq, keep={set(keep) if keep is not None else None!r})\n")


def tmpl_shard(arg) -> core.Part:
    is_async, qtuples, nmax = arg
    import jinja2

    p = core.Part()
    forms = ASYNC_FORMS if is_async else SYNC_FORMS
    tag = "async" if is_async else "sync"
    outs = set()
    k = 0
    for queries in qtuples:
        for filt in (False, True):
            for has_else in (False, True):
                env = jinja2.Environment(enable_async=is_async)
                src = flat_source(queries, filt, has_else)
                tmpl = env.from_string(src)
                for n in range(nmax + 1):
                    items = items_of(n)
                    for keep in masks(n):
                        if (keep is None) == filt:
                            continue
                        want = ref_flat(items, keep, queries, has_else)
                        for form in forms:
                            k += 1
                            via = is_async and k % 16 == 0
                            try:
                                got = render(tmpl, is_async, via, seq=make_iterable(form, items), keep=keep)
                            except Exception as e:  # noqa: BLE001
                                got = ("exc", type(e).__name__, str(e)[:80])
                            p.evals += 1
                            if got != want:
                                unsized = filt or form in UNSIZED
                                p.violation(f"C07/tmpl/{tag}/{'+'.join(sorted(set(queries)))}/"
                                            f"{'filter' if filt else 'nofilter'}/{'unsized' if unsized else 'sized'}", {
                                    "msg": f"{tag} {src!r} over {form} {items} keep={sorted(keep) if keep is not None else None}: "
                                           f"got {got!r}, expected {want!r}",
                                    "script": _tmpl_script(src, is_async, _flat_setup(form, n, keep))})
                        outs.add(want)
        if len(p.samples) < 2:
            p.sample({"kind": "for-loop template", "env": tag, "source": flat_source(queries, True, True),
                      "expected over [10,11,12] keep {10,12}": ref_flat(items_of(3), {10, 12}, queries, True)}, cap=2)
    for o in outs:
        p.sig(("tmpl", o))
    p.count("template_renders", p.evals)
    return p


# recursive loops ------------------------------------------------------------


def forests(max_nodes, max_depth):
    """all ordered forests (tuples of trees; tree = tuple of child trees) with <= max_nodes nodes, depth <= max_depth."""
    from functools import lru_cache

    @lru_cache(None)
    def forest(n, d):
        if n == 0:
            return ((),)
        if d == 0:
            return ()
        out = []
        for first in range(1, n + 1):          # size of the first tree
            for kids in forest(first - 1, d - 1):
                for rest in forest(n - first, d):
                    out.append((kids,) + rest)
        return tuple(out)

    res = []
    for n in range(max_nodes + 1):
        res += list(forest(n, max_depth))
    return res


def label(forest_shape, form, counter=None):
    """shape -> list of node dicts {v, k, c}; labels in preorder starting at 10."""
    counter = counter if counter is not None else [10]
    nodes = []
    for kids in forest_shape:
        v = counter[0]
        counter[0] += 1
        nodes.append({"v": v, "k": v % 2 == 0, "kids": label(kids, form, counter)})
    return nodes


def materialize(nodes, form):
    out = []
    for nd in nodes:
        out.append({"v": nd["v"], "k": nd["k"], "c": make_iterable(form, materialize(nd["kids"], form))})
    return out


def rec_source(queries, filt, has_else, cond):
    call = "{% if x.c %}{{ loop(x.c) }}{% endif %}" if cond else "{{ loop(x.c) }}"
    return ("{% for x in seq" + (" if x.k" if filt else "") + " recursive %}<{{ x.v }}"
            + "".join("|{{ " + Q_SRC_REC[q] + " }}" for q in queries) + call + ">"
            + ("{% else %}E" if has_else else "") + "{% endfor %}")


def ref_rec(nodes, depth0, queries, filt, has_else, cond):
    vis = [nd for nd in nodes if not filt or nd["k"]]
    rl = RefLoop([nd["v"] for nd in vis], depth0)
    out = []
    for pos, nd in enumerate(vis):
        rl.pos = pos
        s = "<%s" % nd["v"] + "".join("|" + fmt(rl.query(q, nd["v"] // 2)) for q in queries)
        if nd["kids"] or not cond:
            s += ref_rec(nd["kids"], depth0 + 1, queries, filt, has_else, cond)
        out.append(s + ">")
    if not vis and has_else:
        out.append("E")
    return "".join(out)


def rec_shard(arg) -> core.Part:
    is_async, qtuples, max_nodes = arg
    import jinja2

    p = core.Part()
    tag = "async" if is_async else "sync"
    shapes = forests(max_nodes, 3)
    outs = set()
    k = 0
    for queries in qtuples:
        for filt, has_else, cond in itertools.product((False, True), repeat=3):
            env = jinja2.Environment(enable_async=is_async)
            src = rec_source(queries, filt, has_else, cond)
            tmpl = env.from_string(src)
            forms = ("list",) if cond else (("list", "gen", "agen") if is_async else ("list", "gen"))
            for shape in shapes:
                nodes = label(shape, None)
                want = ref_rec(nodes, 0, queries, filt, has_else, cond)
                for form in forms:
                    k += 1
                    via = is_async and k % 16 == 0
                    try:
                        got = render(tmpl, is_async, via, seq=make_iterable(form, materialize(nodes, form)))
                    except Exception as e:  # noqa: BLE001
                        got = ("exc", type(e).__name__, str(e)[:80])
                    p.evals += 1
                    if got != want:
                        p.violation(f"C07/rec/{tag}/{'+'.join(sorted(set(queries)))}/{'filter' if filt else 'nofilter'}", {
                            "msg": f"{tag} {src!r} over forest {shape!r} ({form} children): got {got!r}, expected {want!r}",
                            "script": ("from vf import core\ncore.import_all_jinja()\nimport jinja2\nfrom checks import c07\n"
                                       f"nodes = c07.label({shape!r}, None)\n"
                                       f"t = jinja2.Environment(enable_async={is_async!r}).from_string({src!r})\n"
                                       f"print(repr(t.render(seq=c07.make_iterable({form!r}, c07.materialize(nodes, {form!r})))))\n"
                                       f"print('expected', repr(c07.ref_rec(nodes, 0, {tuple(queries)!r}, {filt!r}, {has_else!r}, {cond!r})))\n")})
                outs.add(want)
        if len(p.samples) < 1:
            p.sample({"kind": "recursive loop template", "env": tag, "source": rec_source(queries, False, True, False),
                      "expected over forest ((()),())": ref_rec(label((((),), ()), None), 0, queries, False, True, False)}, cap=1)
    for o in outs:
        p.sig(("rec", o))
    p.count("recursive_renders", p.evals)
    return p


# loops left early (jinja2.ext.loopcontrols) -----------------------------------

CTLS = ("break", "continue", "break-else-continue", "cond-break", "cond-continue")


def ctl_source(ctl, query, filt):
    body = {
        "break": "{% break %}",
        "continue": "{% continue %}",
        "break-else-continue": "{% if x in stop %}{% break %}{% else %}{% continue %}{% endif %}",
        "cond-break": "{% if x in stop %}{% break %}{% endif %}T",
        "cond-continue": "{% if x in stop %}{% continue %}{% endif %}T",
    }[ctl]
    return ("{% for x in seq" + (" if x in keep" if filt else "") + " %}[{{ x }}"
            + ("|{{ " + Q_SRC[query] + " }}" if query else "") + "]" + body + "{% else %}ELSE{% endfor %}")


def ref_ctl(items, keep, stop, ctl, query):
    """else iff no item passed the filter, however the iterations ended; break ends the visit sequence."""
    vis = [x for x in items if keep is None or x in keep]
    rl = RefLoop(vis)
    out = []
    for pos, x in enumerate(vis):
        rl.pos = pos
        out.append("[%s" % x + ("|" + fmt(rl.query(query, x // 2)) if query else "") + "]")
        hit = x in stop
        if ctl == "break" or (hit and ctl in ("break-else-continue", "cond-break")):
            break
        if ctl in ("continue", "break-else-continue") or (hit and ctl == "cond-continue"):
            continue
        out.append("T")
    if not vis:
        out.append("ELSE")
    return "".join(out)


def ctl_shard(arg) -> core.Part:
    is_async, combos, nmax = arg
    import jinja2

    p = core.Part()
    forms = ASYNC_FORMS if is_async else SYNC_FORMS
    tag = "async" if is_async else "sync"
    outs = set()
    k = 0
    for ctl, query in combos:
        for filt in (False, True):
            env = jinja2.Environment(enable_async=is_async, extensions=["jinja2.ext.loopcontrols"])
            src = ctl_source(ctl, query, filt)
            tmpl = env.from_string(src)
            for n in range(nmax + 1):
                items = items_of(n)
                stops = [frozenset()] + [frozenset([x]) for x in items]
                if ctl in ("break", "continue"):
                    stops = stops[:1]
                for keep in masks(n):
                    if (keep is None) == filt:
                        continue
                    for stop in stops:
                        want = ref_ctl(items, keep, stop, ctl, query)
                        for form in forms:
                            k += 1
                            via = is_async and k % 16 == 0
                            try:
                                got = render(tmpl, is_async, via, seq=make_iterable(form, items), keep=keep, stop=stop)
                            except Exception as e:  # noqa: BLE001
                                got = ("exc", type(e).__name__, str(e)[:80])
                            p.evals += 1
                            if got != want:
                                kind = "else-after-visit" if isinstance(got, str) and got.endswith("ELSE") and not want.endswith("ELSE") else "output"
                                p.violation(f"C07/ctl/{tag}/{ctl}/{kind}/{'filter' if filt else 'nofilter'}", {
                                    "msg": f"{tag} {src!r} over {form} {items} keep={sorted(keep) if keep is not None else None} "
                                           f"stop={sorted(stop)}: got {got!r}, expected {want!r}",
                                    "script": ("import jinja2, asyncio\n" + _flat_setup(form, n, keep) +
                                               f"vars['stop'] = {set(stop)!r}\n"
                                               f"env = jinja2.Environment(enable_async={is_async!r}, extensions=['jinja2.ext.loopcontrols'])\n"
                                               f"print(repr(env.from_string({src!r}).render(**vars)))\n")})
                        outs.add((ctl, want))
    if combos:
        ctl, query = combos[0]
        p.sample({"kind": "loop left early", "env": tag, "source": ctl_source(ctl, query, True),
                  "expected over [10,11,12] keep {11,12} stop {11}": ref_ctl(items_of(3), {11, 12}, {11}, ctl, query)}, cap=1)
    for o in outs:
        p.sig(("ctl",) + o)
    p.count("loopcontrol_renders", p.evals)
    return p


# loop used only inside a scoped block --------------------------------------------

PLACEMENTS = ("direct", "if", "with")


def blk_source(query, placement, nested):
    blk = "{% block b1 scoped %}{{ " + Q_SRC[query] + " }}{% endblock %}"
    if placement == "if":
        blk = "{% if true %}" + blk + "{% endif %}"
    elif placement == "with":
        blk = "{% with z = 1 %}" + blk + "{% endwith %}"
    inner = "{% for x in " + ("s" if nested else "seq") + " %}[{{ x }}|" + blk + "]{% endfor %}"
    if nested:
        return "{% for s in seqs %}<{{ loop.index }}:" + inner + ">{% endfor %}"
    return inner


def ref_blk(n, query, nested):
    one = ref_flat(items_of(n), None, (query,), False)
    if nested:
        return "".join("<%d:%s>" % (i + 1, one) for i in range(3))
    return one


def blk_shard(arg) -> core.Part:
    is_async, nmax = arg
    import jinja2

    p = core.Part()
    tag = "async" if is_async else "sync"
    forms = ("list", "gen", "agen") if is_async else ("list", "gen")
    outs = set()
    for query in QUERIES:
        for placement in PLACEMENTS:
            for nested in (False, True):
                src = blk_source(query, placement, nested)
                tmpl = jinja2.Environment(enable_async=is_async).from_string(src)
                for n in range(nmax + 1):
                    want = ref_blk(n, query, nested)
                    for form in forms:
                        items = items_of(n)
                        try:
                            got = render(tmpl, is_async, form == "list" and is_async,
                                         seq=make_iterable(form, items),
                                         seqs=[make_iterable(form, items) for _ in range(3)])
                        except Exception as e:  # noqa: BLE001
                            got = ("exc", type(e).__name__, str(e)[:80])
                        p.evals += 1
                        if got != want:
                            p.violation(f"C07/scoped-block/{tag}/{placement}/{'nested' if nested else 'single'}/{query}", {
                                "msg": f"{tag} {src!r} over {form} of {n} items: got {got!r}, expected {want!r}",
                                "script": ("import jinja2\n"
                                           f"env = jinja2.Environment(enable_async={is_async!r})\n"
                                           f"items = {items!r}\n"
                                           f"print(repr(env.from_string({src!r}).render(seq=list(items), seqs=[list(items)] * 3)))\n")})
                    outs.add(want)
    p.sample({"kind": "loop used only inside a scoped block", "env": tag, "source": blk_source("revindex", "if", True),
              "expected over 3 x [10,11]": ref_blk(2, "revindex", True)}, cap=1)
    for o in outs:
        p.sig(("blk", o))
    p.count("scoped_block_renders", p.evals)
    return p


# outer `loop` used only in an inner loop's filter / else branch ------------------------


def outer_source(query, where):
    q = Q_SRC[query]
    if where == "filter":
        return ("{% for x in seq %}<{% for y in inner[x] if rec(" + q + ") %}{{ y }},{% endfor %}>{% endfor %}")
    return "{% for x in seq %}<{% for y in inner[x] %}{{ y }},{% else %}{{ " + q + " }}{% endfor %}>{% endfor %}"


def ref_outer(n, query, where):
    """CALIBRATED scope rule (compiler: test and else frames are children of the enclosing frame): an inner
    loop's filter and else branch see the enclosing loop's `loop`; its values are R-loop of the outer loop."""
    items = items_of(n)
    rl = RefLoop(items)
    out, recorded = [], []
    for pos, x in enumerate(items):
        rl.pos = pos
        if where == "filter":
            for _y in (1, 2):
                recorded.append(fmt(rl.query(query, x // 2)))
            out.append("<1,2,>")
        elif x % 2:
            out.append("<1,2,>")
        else:
            out.append("<" + fmt(rl.query(query, x // 2)) + ">")
    return "".join(out), recorded


def outer_shard(arg) -> core.Part:
    is_async, nmax = arg
    import jinja2
    from jinja2.runtime import Undefined

    p = core.Part()
    tag = "async" if is_async else "sync"
    forms = ASYNC_FORMS if is_async else SYNC_FORMS
    outs = set()
    k = 0
    for query in QUERIES:
        for where in ("filter", "else"):
            src = outer_source(query, where)
            tmpl = jinja2.Environment(enable_async=is_async).from_string(src)
            for n in range(nmax + 1):
                items = items_of(n)
                want = ref_outer(n, query, where)
                for form in forms:
                    k += 1
                    recorded = []

                    def rec(v, recorded=recorded):
                        recorded.append("U" if isinstance(v, Undefined) else str(v))
                        return True

                    inner = {x: ([1, 2] if where == "filter" or x % 2 else []) for x in items}
                    try:
                        got = (render(tmpl, is_async, is_async and k % 8 == 0, seq=make_iterable(form, items),
                                      inner=inner, rec=rec), recorded)
                    except Exception as e:  # noqa: BLE001
                        got = ("exc", type(e).__name__, str(e)[:80])
                    p.evals += 1
                    if got != want:
                        p.violation(f"C07/outer-loop-in-inner-{where}/{tag}/{query}", {
                            "msg": f"{tag} {src!r} over {form} of {n} items: got {got!r}, expected (output, values seen by rec) {want!r}",
                            "script": ("import jinja2\nseen = []\n"
                                       "def rec(v):\n    seen.append(str(v))\n    return True\n"
                                       f"items = {items!r}\ninner = {inner!r}\n"
                                       f"env = jinja2.Environment(enable_async={is_async!r})\n"
                                       f"print(repr(env.from_string({src!r}).render(seq=list(items), inner=inner, rec=rec)), seen)\n")})
                outs.add(repr(want))
    p.sample({"kind": "outer loop variable used only in the inner loop's filter", "env": tag,
              "source": outer_source("revindex", "filter"), "expected over [10,11]": list(ref_outer(2, "revindex", "filter"))}, cap=1)
    for o in outs:
        p.sig(("outer", o))
    p.count("outer_scope_renders", p.evals)
    return p


def chunks(xs, n):
    k = max(1, (len(xs) + n - 1) // n)
    return [xs[i:i + k] for i in range(0, len(xs), k)]



# ---------------------------------------------------------------- loop.cycle: every argument shape
#
# "loop.cycle(*args): cycles among a list of sequences" - the value is args[index0 % len(args)], whatever the
# arguments are: a single list / tuple / string argument is ONE item (it is returned as it is, not unpacked).

CYCLE_ARGS = [
    ("'a'",), ("'ab'",), ("['a', 'b']",), ("('a', 'b')",), ("[]",), ("()",), ("''",), ("none",), ("[['a', 'b']]",),
    ("{'k': 1}",), ("x",), ("seq",), ("seq2",), ("tup",), ("'a'", "'b'"), ("['a', 'b']", "'c'"), ("'c'", "['a', 'b']"),
    ("['a']", "['b']"), ("[]", "[]"), ("seq", "tup"), ("*seq",), ("*seq2",), ("*tup",), ("*'ab'",), ("'z'", "*seq"),
    ("*[seq]",), ("[]", "'a'", "()"), ("'a'", "'b'", "'c'", "'d'"), ("1", "2.5", "true"),
]
CYCLE_DATA = {"seq": ["p", "q"], "seq2": ["p"], "tup": ("s", "t", "u")}


def cycle_ref(args, pos, x):
    env = dict(CYCLE_DATA, x=x, none=None, true=True)
    vals = eval("[" + ", ".join(args) + "]", {"__builtins__": {}}, env)  # the menu is Python-compatible on purpose
    return vals[pos % len(vals)]


def cycle_shard(arg):
    is_async, nmax = arg
    core.import_all_jinja()
    import jinja2

    p = core.Part()
    env = jinja2.Environment(enable_async=is_async, cache_size=0)
    unpacked = 0
    for args in CYCLE_ARGS:
        call = "loop.cycle(" + ", ".join(args) + ")"
        for wrap in ("{{ %s }}", "{{ %s|string }}", "{%% set v = %s %%}{{ v }}", "{{ [%s]|first }}"):
            for outer in ("plain", "filtered", "nested", "recursive"):
                body = "<" + (wrap % call) + ">"
                if outer == "plain":
                    src = "{% for x in xs %}" + body + "{% endfor %}"
                elif outer == "filtered":
                    src = "{% for x in xs if x >= 0 %}" + body + "{% endfor %}"
                elif outer == "nested":
                    src = "{% for y in [0] %}{% for x in xs %}" + body + "{% endfor %}{% endfor %}"
                else:
                    src = "{% for x in xs recursive %}" + body + "{% endfor %}"
                tmpl = env.from_string(src)
                for n in range(nmax + 1):
                    for form in ("list", "gen"):
                        items = list(range(n))
                        xs = items if form == "list" else (i for i in items)
                        p.evals += 1
                        want = "".join("<%s>" % (cycle_ref(args, i, items[i]),) for i in range(n))
                        data = dict(CYCLE_DATA, xs=xs)
                        try:
                            got = run_coro(tmpl.render_async(**data)) if is_async else tmpl.render(**data)
                        except Exception as e:  # noqa: BLE001
                            got = "EXC " + type(e).__name__
                        if n and any(a.startswith(("[", "(", "seq", "tup", "*")) for a in args):
                            unpacked += 1
                        if got != want:
                            p.violation(f"C07/cycle-args/{'async' if is_async else 'sync'}/{'star' if any(a.startswith('*') for a in args) else 'plain'}-{len(args)}", {
                                "msg": f"{src!r} over {form} of {n} item(s) with {CYCLE_DATA}: got {got!r}, reference {want!r} "
                                       f"(args[index0 % len(args)])",
                                "script": ("import jinja2\n"
                                           f"env = jinja2.Environment(); t = env.from_string({src!r})\n"
                                           f"print(repr(t.render(xs=list(range({n})), **{CYCLE_DATA!r})), 'reference', {want!r})\n")})
                        p.sig(("cycle", args, n, want[:12]))
    # zero arguments: documented TypeError
    for n in (1, 2):
        p.evals += 1
        try:
            t = env.from_string("{% for x in xs %}{{ loop.cycle() }}{% endfor %}")
            got = run_coro(t.render_async(xs=list(range(n)))) if is_async else t.render(xs=list(range(n)))
        except TypeError:
            got = "TypeError"
        except Exception as e:  # noqa: BLE001
            got = "EXC " + type(e).__name__
        if got != "TypeError":
            p.violation(f"C07/cycle-args/{'async' if is_async else 'sync'}/no-arguments", {
                "msg": f"loop.cycle() without arguments: {got!r}, documented TypeError", "script": "# see msg\n"})
    if not unpacked:
        raise core.HarnessError("cycle family never passed a sequence argument")
    p.count("cycle_cases", p.evals)
    return p


def run(ctx: core.Ctx):
    core.import_all_jinja()
    nmax = 4 if ctx.quick else 6
    ctx.rule = ("model checking: BFS over canonical states of the real (Async)LoopContext, every enabled operation on every "
                "state, compared with R-loop; templates: every (query tuple, filter, else, iterable form, length, kept "
                "subset) and every (query tuple, filter, else, conditional call, forest, children form); distinct = "
                "(operation, result kind) pairs of the state graph + distinct expected template outputs")
    ctx.assumptions += [
        "loop attributes are only defined inside the loop body: queries are enabled after the first item was handed out and before exhaustion",
        "async loop contexts and async renders are driven by hand with coro.send(None); nothing suspends; every 16th async render also goes through Template.render (asyncio.run)",
        "items are distinct ints; changed() is called with item//2 and with a constant",
        "CALIBRATED: an inner loop's filter expression and else branch are evaluated in the enclosing loop's scope and see the "
        "enclosing loop's `loop` (docs only say `loop` refers to the innermost loop)",
        "the model mirrors two unobservable cache bits (item peeked, length cached) only to state the correspondence of states",
    ]
    configs = [(a, f, n) for a in (False, True) for f in (ASYNC_FORMS if a else SYNC_FORMS) for n in range(nmax + 1)]
    ctx.pmap(mc_shard, configs)
    fdepth = 3 if ctx.quick else 4
    ctx.pmap(flat_shard, [(a, f, n, fdepth + 1) for (a, f, n) in configs if n in (2, 3)])
    if ctx.counters.get("no_fixpoint"):
        ctx.cap_hit("state graph exploration did not reach a fixpoint")
    # template level
    k = 2 if ctx.quick else 3
    qt = [(q,) for q in QUERIES] + [t for r in range(2, k + 1) for t in itertools.product(QUERIES, repeat=r)]
    tshards = [(a, c, nmax) for a in (False, True) for c in chunks(qt, 48 if ctx.quick else 160)]
    ctx.pmap(tmpl_shard, tshards)
    qr = [(q,) for q in QUERIES] + list(itertools.product(QUERIES, repeat=2))
    ctx.pmap(rec_shard, [(a, c, 4 if ctx.quick else 5) for a in (False, True) for c in chunks(qr, 24 if ctx.quick else 48)])
    combos = [(c, q) for c in CTLS for q in (None,) + QUERIES]
    ctx.pmap(ctl_shard, [(a, c, nmax) for a in (False, True) for c in chunks(combos, 16)])
    ctx.pmap(blk_shard, [(a, nmax) for a in (False, True)])
    ctx.pmap(outer_shard, [(a, nmax) for a in (False, True)])
    ctx.pmap(cycle_shard, [(a, nmax) for a in (False, True)])
    tr = ctx.counters.get("transitions", 0)
    ctx.cov["states"] = ctx.counters.get("states", 0)
    ctx.cov["transitions"] = tr
    ctx.cov["traces_validated_against_impl"] = tr + ctx.counters.get("flat_histories", 0)
    ctx.cov["merges_validated"] = ctx.counters.get("merges_validated", 0)
    ctx.cov["fixpoint_reached"] = not ctx.counters.get("no_fixpoint")
    ctx.cov["bounds"] = {"max_length": nmax, "queries_per_iteration": k, "forest_nodes": 4 if ctx.quick else 5,
                         "forest_depth": 3, "flat_history_depth": fdepth + 1,
                         "cycle_argument_shapes": len(CYCLE_ARGS), "cycle_cases": ctx.counters.get("cycle_cases", 0),
                         "iterable_forms_sync": list(SYNC_FORMS), "iterable_forms_async": list(ASYNC_FORMS)}
