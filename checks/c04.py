"""C04 — template inheritance renders the most-derived block overrides.

Every structural inheritance chain of vf/gen_inh.py up to the tier's bound is
turned into templates, rendered from a DictLoader by a fresh Environment and
compared with the independent resolver R-inh (gen_inh.expected).
"""
from __future__ import annotations

import contextlib
import re
import signal

from vf import core, gen_inh

META = {
    "level": "exploration",
    "engine": "E1",
    "technique": "bounded-exhaustive enumeration of structural template-inheritance chains (block kinds x extends "
    "forms x flag assignments) rendered from a DictLoader against an independent inheritance resolver (R-inh)",
    "text": "All chains of depth 1-2 over blocks {a,b} with every per-block kind (absent, text, super(), super.super(), "
    "self.other(), nested other block, scoped / unscoped block inside a for loop, required in the root) and every "
    "extends form (literal, variable, Template object, conditional expression, extends inside if, double extends, two "
    "conditional extends) with every flag assignment, plus depth 3 with one block, plus self.<block>() calls from the "
    "root layout on literal chains, plus small plans for scoped blocks inside if / with / a nested loop within a for "
    "(overrides printing loop.index/loop.length) and for block bodies that use self.y() and super()/super.super() "
    "together, for scoped blocks in buffered frames (filter block, set block, recursive loop), and an "
    "enable_async=True twin render of the scoped-block plans (thorough: additionally depth 3 with two blocks - all kinds on literal chains, a "
    "reduced kind set under all extends forms -, depth 4 with one block, three blocks at depth <= 2). Marker text before/between/after blocks and on both sides of "
    "the extends tag makes every misplaced or unsuppressed output visible. The whole rendered string or the exception "
    "class (TemplateRuntimeError / UndefinedError) must equal the resolver's answer.",
    "note": "Bounded: depth <= 3 (4), block names <= 2 (3), one definition shape per block and template, loop of two "
    "values; sync default Environment, plus an enable_async=True twin of the scoped-block sub-plans (full async "
    "parity is C09); self-recursive block calls are excluded. Three "
    "resolver rules are calibrated from the tree (see assumptions).",
    "design_ref": "DESIGN.md §4 C04, §3 R-inh",
}

QUIRK_SIGS = {
    "leak": "C04/child-toplevel-loop/blocks-rendered-in-place",
    "lazy_required": "C04/required-unreached/no-error",
}

_TAG = re.compile(r"<([abc][0-9A])")



@contextlib.contextmanager
def cpu_alarm(seconds):
    """hang guard on the worker's CPU time (ITIMER_PROF), so that a worker that is merely starved on a
    shared machine is not mistaken for a hanging render (core.alarm counts wall time)."""
    def on_alarm(signum, frame):
        raise core.CaseTimeout()

    old = signal.signal(signal.SIGPROF, on_alarm)
    signal.setitimer(signal.ITIMER_PROF, seconds)
    try:
        yield
    finally:
        signal.setitimer(signal.ITIMER_PROF, 0)
        signal.signal(signal.SIGPROF, old)


def _script(case, is_async=False):
    src, main, data = gen_inh.to_templates(case)
    d = {k: (("$template", v.name) if isinstance(v, gen_inh.TemplateRef) else v) for k, v in data.items()}
    return (
        "import jinja2\n"
        f"src = {src!r}\n"
        f"main, data = {main!r}, {d!r}\n"
        f"env = jinja2.Environment(loader=jinja2.DictLoader(src), enable_async={is_async!r})\n"
        "data = {k: (env.get_template(v[1]) if isinstance(v, tuple) else v) for k, v in data.items()}\n"
        "for n in sorted(src):\n"
        "    print(n, '=', src[n])\n"
        "try:\n"
        "    print('rendered:', repr(env.get_template(main).render(**data)))\n"
        "except Exception as e:\n"
        "    print('raised  :', type(e).__name__, e)\n"
        f"print('expected:', {gen_inh.expected(case)!r})\n"
    )


def _generic(case, got, exp):
    if isinstance(got, tuple) and isinstance(exp, tuple):
        return f"C04/exception/{got[1]}-instead-of-{exp[1]}"
    if isinstance(got, tuple):
        return f"C04/unexpected-exception/{got[1]}"
    if isinstance(exp, tuple):
        return f"C04/missing-exception/{exp[1]}"
    forms = "+".join(sorted({lv[0] for lv in case[1] if lv[0]})) or "root"
    return f"C04/output/{forms}"


def classify(case, got, exp):
    """signatures for a mismatch.  The two named deviations are recognised narrowly:
    `required-unreached` structurally (gen_inh.required_unreached: the only failure R-inh sees in the
    case is a never-reached, never-overridden required block) and only when no error was raised;
    `child-toplevel-loop` only when the output is exactly what rendering the loop-wrapped blocks of
    extending templates in place would give.  Anything else gets a generic signature."""
    sigs = []
    quirks = ()
    if gen_inh.required_unreached(case) and not isinstance(got, tuple):
        sigs.append(QUIRK_SIGS["lazy_required"])
        quirks = ("lazy_required",)
        exp = gen_inh.expected(case, quirks)
        if got == exp:
            return sigs
    if gen_inh.expected(case, quirks + ("leak",)) == got:
        return sigs + [QUIRK_SIGS["leak"]]
    return sigs + [_generic(case, got, exp)]


def _one(p, case, got, exp, mode):
    depth = len(case[1])
    p.count(f"cases_depth{depth}_blocks{len(case[0])}" + ("_async" if mode else ""))
    if isinstance(got, tuple):
        p.count("raised_" + got[1])
        p.sig(("exc", got[1], depth, mode))
    else:
        tags = _TAG.findall(got)
        if depth > 1 or tags:
            p.sig("".join(tags) + "/" + str(got.count("^")) + mode)
    if got != exp:
        for sig in classify(case, got, exp):
            p.violation(sig + ("/async" if mode else ""), {
                "msg": f"case={gen_inh.tojson(case)} templates={gen_inh.to_templates(case)[0]} "
                       + ("enable_async=True " if mode else "") + f"rendered {got!r}, R-inh expects {exp!r}",
                "case": gen_inh.tojson(case), "got": repr(got), "expected": repr(exp), "async": bool(mode),
                "script": _script(case, bool(mode)),
            })
    if p.evals % 97 == 1:
        p.sample({"case": gen_inh.tojson(case), "async": bool(mode),
                  "outcome": got if isinstance(got, str) else list(got)}, cap=2)


def _render(case, env_kwargs=None):
    try:
        with cpu_alarm(20):
            return gen_inh.render(case, env_kwargs)
    except core.CaseTimeout:
        return ("exc", "Hang(20 s CPU)")


def shard(arg) -> core.Part:
    bound, k, n = arg
    p = core.Part()
    for case in gen_inh.cases(bound, shard=(k, n)):
        p.evals += 1
        _one(p, case, _render(case), gen_inh.expected(case), "")
    # async twin of the plans flagged for it: same chains, Environment(enable_async=True), Template.render
    for case in gen_inh.async_cases(bound, shard=(k, n)):
        p.evals += 1
        _one(p, case, _render(case, {"enable_async": True}), gen_inh.expected(case), "async")
    return p


def run(ctx: core.Ctx):
    core.import_all_jinja()
    bound = "quick" if ctx.quick else "thorough"
    ctx.rule = ("cases = gen_inh.cases(bound): per plan the full product of per-template block-kind assignments x "
                "extends forms x flag assignments (never-loaded levels kept at one canonical choice, self-recursive "
                "cases dropped); non-trivial = an extends was executed, a block was rendered or the render raised; "
                "distinct = distinct (sequence of block definitions rendered, number of pre-extends texts) or "
                "(exception class, depth)")
    ctx.assumptions += [
        "R-inh follows docs/templates.rst (Template Inheritance, Extends, If Expression) and docs/tricks.rst (Null-Default Fallback)",
        "CALIBRATED: super() and self.x() render their target with the variable scope of the calling block",
        "CALIBRATED: an unscoped block tag passes the scope it was reached with on unchanged (a block nested in a scoped block still sees the loop variable)",
        "documented-by-general-rule: self.<undefined block>() and super()/super.super() past the root raise UndefinedError",
        "sync default Environment, DictLoader; fresh Environment per case",
    ]
    n = 64 if ctx.quick else 320
    ctx.pmap(shard, [(bound, k, n) for k in range(n)])
    ctx.cov["bounds"] = {"tier": bound, "plans": [dict(pl, names=list(pl["names"]), forms=list(pl["forms"]))
                                                  for pl in gen_inh.plans(bound)]}
