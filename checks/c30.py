"""C30 — template compilation is deterministic (E6)."""
from __future__ import annotations

import hashlib
import re
import json
import os
import subprocess
import sys

from vf import core, e6

META = {
    "level": "exploration",
    "engine": "E6",
    "technique": "exhaustive enumeration of the iteration orders of every set that feeds code generation (deviation-bounded: "
    "any other order at up to 1 (thorough 2) iteration points), cross-checked with real PYTHONHASHSEED subprocesses",
    "text": "The builtin set is replaced inside jinja2.idtracking, jinja2.compiler and jinja2.ext by a set whose iteration order "
    "the explorer owns.  For every template of a family that stresses the set-valued bookkeeping (tuple-unpacking set, "
    "branch stores, from-imports, macros with caller/varargs/kwargs, many filters and tests, trans blocks with 2-4 free "
    "variables, nested scopes) the template is compiled under the default (sorted) order and under every alternative order "
    "at every iteration point (all permutations for sets of <= 4 elements); all generated sources must be byte-identical.  "
    "Repeated compilation in one process and compilation in subprocesses with PYTHONHASHSEED 0..7 must agree too.",
    "note": "Only sets created through the name `set` in idtracking/compiler/ext are owned; a set built elsewhere (literal, "
    "frozenset, dict-view algebra) and iterated into generated code would be seen only by the 8-seed cross-check. "
    "Deviation bound 1 (quick) / 2 (thorough).",
    "design_ref": "DESIGN.md §4 C30, §3 E6",
}

FAMILY = [
    "{% set a, b = 1, 2 %}{{ a }}{{ b }}",
    "{% set a, b, c = 1, 2, 3 %}{{ c }}{{ a }}",
    "{% set a, b, c, d = x %}{{ d }}{{ b }}",
    "{% if x %}{% set a = 1 %}{% set b = 2 %}{% else %}{% set b = 3 %}{% set c = 4 %}{% endif %}{{ a }}{{ b }}{{ c }}",
    "{% if x %}{% set a = 1 %}{% elif y %}{% set a = 2 %}{% set b = 1 %}{% else %}{% set c = 1 %}{% endif %}{{ a }}{{ b }}{{ c }}",
    "{% for a, b, c in rows %}{% set d = a %}{% set e = b %}{{ c }}{% endfor %}",
    "{% for i in x %}{% set a = i %}{% set b = i %}{% set c = i %}{% else %}{% set d = 1 %}{% endfor %}",
    "{% from 'm' import a, b, c, d %}{{ a }}{{ b() }}",
    "{% from 'm' import a as q, b as r, c with context %}{{ q }}{{ r }}{{ c }}",
    "{% import 'm' as m1 %}{% import 'n' as m2 %}{{ m1.a }}{{ m2.b }}",
    "{% macro m(a, b) %}{{ caller() }}{{ varargs }}{{ kwargs }}{{ a }}{{ b }}{% endmacro %}{% call m(1, 2) %}x{% endcall %}",
    "{% macro m(a, b=1, c=2) %}{{ kwargs }}{{ varargs }}{% endmacro %}{{ m(1) }}",
    "{% macro m(caller, varargs, kwargs) %}{{ caller }}{% endmacro %}",
    "{{ x|upper|lower|title|trim|length }}{{ y|default(1)|int|abs }}",
    "{{ x is defined }}{{ x is none }}{{ y is odd }}{{ y is even }}{{ y is string }}",
    "{{ a|e }}{{ b|safe }}{{ c|join(',') }}{{ d|first }}{{ e|last }}{% if f is mapping %}{{ f|dictsort }}{% endif %}",
    "{% trans %}{{ a }} {{ b }}{% endtrans %}",
    "{% trans %}{{ a }} {{ b }} {{ c }}{% endtrans %}",
    "{% trans %}{{ a }} {{ b }} {{ c }} {{ d }}{% endtrans %}",
    "{% trans n=k %}{{ n }} {{ a }}{% pluralize %}{{ n }} {{ b }} {{ c }}{% endtrans %}",
    "{% trans a=x, b=y %}{{ a }} {{ b }} {{ c }}{% endtrans %}",
    "{% with a = 1, b = 2, c = 3 %}{{ a }}{{ b }}{{ c }}{% endwith %}",
    "{% with %}{% set a = 1 %}{% set b = 2 %}{{ a }}{{ b }}{% endwith %}{{ a }}",
    "{% block x %}{% set a = 1 %}{% set b = 2 %}{{ a }}{{ b }}{{ c }}{{ d }}{% endblock %}{% block y scoped %}{{ e }}{{ f }}{% endblock %}",
    "{% for a in x %}{% for b in y %}{% set c = a %}{% set d = b %}{{ c }}{{ d }}{{ e }}{% endfor %}{% endfor %}",
    "{% set ns = namespace(a=1, b=2) %}{% set ns.a = 2 %}{% set ns.b = 3 %}{{ ns.a }}",
    "{% set a = 1 %}{% set b = 2 %}{% set c = 3 %}{% set _d = 4 %}{% macro e() %}{% endmacro %}{% macro f() %}{% endmacro %}",
    "{% filter upper %}{{ a }}{{ b }}{% set c = 1 %}{% set d = 2 %}{% endfilter %}",
    "{% set a %}{{ b }}{{ c }}{% endset %}{% set d | upper %}{{ e }}{{ f }}{% endset %}",
    "{% for a in x recursive %}{{ loop(a.c) }}{% set b = 1 %}{% set c = 2 %}{% endfor %}",
    "{% for a in x if a is odd and a is not none %}{{ a|abs }}{% set b = a %}{% set c = a %}{% endfor %}",
    "{% extends 'base' %}{% block a %}{% set p = 1 %}{% set q = 2 %}{{ super() }}{% endblock %}{% block b %}{{ self.a() }}{% endblock %}",
    "{% include ['a', 'b'] ignore missing %}{% set a = 1 %}{% set b = 2 %}{% include 'c' without context %}",
    "{% macro m() %}{% set a = 1 %}{% set b = 2 %}{% set c = 3 %}{{ a }}{{ b }}{{ c }}{{ d }}{{ e }}{% endmacro %}",
    "{% if a %}{% if b %}{% set x = 1 %}{% set y = 2 %}{% else %}{% set y = 1 %}{% set z = 2 %}{% endif %}{% endif %}{{ x }}{{ y }}{{ z }}",
    "{% autoescape true %}{% set a = 1 %}{% set b = 2 %}{{ a|e }}{{ b|upper }}{% endautoescape %}",
    "{% do a.append(1) %}{% set b = 1 %}{% set c = 2 %}{% break_ %}".replace("{% break_ %}", ""),
    "{% set a = namespace() %}{% set b = namespace() %}{% set c = namespace() %}{% set a.x, b.y, c.z = 1, 2, 3 %}{% set b.p, a.q = 4, 5 %}",
    "{% from 'm' import f1, f2, f3, f4 %}{% from 'n' import g1 as h1, g2 as h2, g3 %}",
    "{% import 'm' as a %}{% import 'n' as b %}{% import 'o' as c %}{% set d = 1 %}{% set e = 2 %}{% macro m1() %}{% endmacro %}{% macro m2() %}{% endmacro %}",
    # constant expressions folded at compile time: the filter runs inside the compiler and its result is source text
    "{{ 'http://example.com'|urlize(nofollow=true) }}",
    "{{ 'see http://a.example and www.b.example'|urlize(rel='x y', target='_blank') }}",
    "{% autoescape true %}{{ 'http://example.com x@example.org'|urlize(12, true, rel='me') }}{% endautoescape %}",
    "{{ {'b': 1, 'a': 2, 'c': 3}|dictsort }}{{ {'b': 1, 'a': 2}|xmlattr }}{{ {'b': [1, 2], 'a': 'x'}|tojson }}",
    "{{ ['b', 'a', 'b', 'c', 'a']|unique|list }}{{ [3, 1, 2]|sort }}{{ 'b a c a'|wordcount }}{{ ['x', 'y']|join('-') }}",
    "{{ 'a b'|urlencode }}{{ {'k': 'v w', 'j': 'x'}|urlencode }}{{ 'a,b'|replace(',', ';') }}{{ '<a b>'|striptags }}",
    "{{ [1, 2, 3]|select('odd')|list }}{{ [{'a': 1}, {'a': 2}]|map(attribute='a')|list }}{{ [{'a': 1, 'b': 2}]|groupby('a') }}",
    # constant expressions whose value is an arbitrary object (its text carries a memory address)
    "{{ 'a'|attr('upper') }}{{ 'a'.upper }}{{ 'abc'|list|unique }}{{ {'a': 1}|items }}{{ [1, 2]|batch(1) }}{{ [1, 2]|map('string') }}",
    "{% autoescape true %}{{ 'a'.upper }}{{ [3, 1]|sort|reverse }}{{ 'ab'|reverse }}{% endautoescape %}{{ [1]|select('odd') }}{{ 'a b'|wordwrap }}",
    "{% set v = 'a'.upper %}{{ v }}{% if 'a'.upper %}x{% endif %}{{ ('a'.upper, 1) }}{{ ['a'.title] }}",
    # special names used together in one block / macro / loop
    "{% extends 'base' %}{% block a %}{{ self.b() }}{{ super() }}{% endblock %}{% block b %}{{ super.super() }}{{ self.a() }}{{ x }}{% endblock %}",
    "{% block a %}{{ self.a }}{{ super() }}{{ loop }}{{ caller }}{{ varargs }}{{ kwargs }}{% endblock %}",
    "{% for a in x %}{{ loop.index }}{{ self.b() }}{{ super }}{% endfor %}",
    # local context dumps: include / import with context / scoped blocks below scopes that store several names
    "{% for a in x %}{% set p = 1 %}{% set q = 2 %}{% with r = 3, s = 4 %}{% include 'inc' %}{% endwith %}{% endfor %}",
    "{% for a, b in x %}{% for c, d in y %}{% include 'inc' %}{% from 'm' import f with context %}{% endfor %}{% endfor %}",
    "{% macro m(a, b, c) %}{% set d = 1 %}{% include 'inc' %}{% import 'm' as mm with context %}{{ mm.f() }}{% endmacro %}",
    "{% for a in x %}{% set p = 1 %}{% set q = 2 %}{% block bl scoped %}{{ a }}{{ p }}{{ q }}{% endblock %}{% endfor %}",
    "{% with a = 1, b = 2 %}{% for c in x %}{% set d = c %}{% block bl scoped %}{{ a }}{{ b }}{{ c }}{{ d }}{% endblock %}{% include ['i1', 'i2'] %}{% endfor %}{% endwith %}",
    "{% call(a, b) m() %}{% set c = 1 %}{% set d = 2 %}{% include 'inc' %}{% endcall %}",
    "{% set a = 1 %}{% set b = 2 %}{% set c = 3 %}{% include 'inc' %}{% from 'm' import f with context %}{% import 'n' as nn with context %}",
    "{% filter upper %}{% set a = 1 %}{% set b = 2 %}{% for c in x %}{% include 'inc' %}{% endfor %}{% endfilter %}",
]


ADDRESS = re.compile(r" at 0x[0-9a-fA-F]{6,}")


def envs():
    import jinja2
    from jinja2.sandbox import SandboxedEnvironment

    ext = ["jinja2.ext.i18n", "jinja2.ext.do", "jinja2.ext.loopcontrols"]
    return [
        ("default", jinja2.Environment(extensions=ext)),
        ("async", jinja2.Environment(extensions=ext, enable_async=True)),
        ("sandbox-unopt", SandboxedEnvironment(extensions=ext, optimized=False)),
    ]


def corpus_sources():
    """every distinct template source of the shared corpus (statement programs, inheritance chains, include/import)."""
    from vf import corpus

    seen = {}
    for it in corpus.items("small"):
        for src in it.sources.values():
            seen.setdefault(src, None)
    return list(seen)


def more_templates():
    """programs of the shared generators, when those modules exist (thinned)."""
    out = []
    try:
        from vf import gen_stmt  # noqa: F401

        n = 0
        for prog in gen_stmt.programs(3):
            out.append(gen_stmt.to_source(prog))
            n += 1
            if n >= 400:
                break
    except Exception:  # noqa: BLE001 - optional
        pass
    return out


def shard(arg):
    idx, src, bound = arg
    p = core.Part()
    e6.install()
    for ename, env in envs():
        def compile_fn():
            return env.compile(src, name="t", filename="t.html", raw=True)
        try:
            sources, runs, pts = e6.explore(compile_fn, bound)
        except Exception as e:  # noqa: BLE001
            p.evals += 1
            p.sig(("compile-error", type(e).__name__))
            continue
        p.evals += runs
        p.count("iteration_points", len(pts))
        p.count("compilations", runs)
        p.sig((idx, ename, len(pts), hashlib.sha1(next(iter(sources)).encode()).hexdigest()[:8]))
        # a memory address in the generated source differs between processes (and between compilations)
        addr = [ln.strip() for ln in next(iter(sources)).splitlines() if ADDRESS.search(ln)]
        if addr:
            p.violation("C30/object-address-in-source/" + _construct(src), {
                "msg": f"{src!r} [{ename}]: the generated source contains the address of a compile-time object: {addr[:2]}",
                "script": "import jinja2\nprint(jinja2.Environment().compile(%r, raw=True))\n" % src})
        if len(sources) > 1:
            items = list(sources.items())
            a, b = items[0][0].splitlines(), items[1][0].splitlines()
            diff = [(x, y) for x, y in zip(a, b) if x != y][:3]
            p.violation("C30/order-dependent-source/" + _construct(src), {
                "msg": f"{src!r} [{ename}] compiles to {len(sources)} different sources depending on set iteration order; "
                       f"deviation {items[1][1]}; first differing lines: {diff}",
                "script": "from checks import c30\nc30.replay(%r, %r, %r)\n" % (src, ename, dict(items[1][1])),
            })
    p.sample({"template": src, "deviation_bound": bound}, cap=1)
    return p


HISTORY = [
    "{{ x|upper|trim }}{% if x is odd %}{{ y|length }}{% endif %}",
    "{{ a|lower|title|e }}{% if a is even and b is string %}{{ b|abs }}{% endif %}{% block k %}{{ c|first|last }}{% endblock %}",
    "{% macro m(v) %}{{ v|join(',')|default('d') }}{% endmacro %}{{ m(x) }}{% for i in x|sort|reverse if i is divisibleby(2) %}{{ i|int }}{% endfor %}",
    "{% trans n=k|length %}{{ n }} a{% pluralize %}{{ n }} b{% endtrans %}{{ q|safe|striptags }}",
    "{% block a %}{{ x|capitalize }}{% endblock %}{% block b %}{{ y|center(5) }}{% if y is mapping %}{{ y|dictsort }}{% endif %}{% endblock %}",
    "{% from 'm' import f1, f2 %}{% set p, q = f1(), f2() %}{{ p|string }}{{ q is none }}",
]


def history_shard(arg):
    """the source of a template does not depend on what was compiled before it in the process: compile A, then every
    other template (one or two of them, in every order), then A again, in the same and in another environment"""
    import itertools

    i = arg
    p = core.Part()
    for ename, env in envs():
        a = HISTORY[i]
        first = env.compile(a, name="t", filename="t.html", raw=True)
        others = [h for j, h in enumerate(HISTORY) if j != i]
        for k in (1, 2):
            for between in itertools.permutations(others, k):
                for b in between:
                    env.compile(b, name="u", filename="u.html", raw=True)
                for env2name, env2 in ((ename, env), ("fresh-" + ename, dict(envs())[ename])):
                    again = env2.compile(a, name="t", filename="t.html", raw=True)
                    p.evals += 1
                    if again != first:
                        diff = [(x, y) for x, y in zip(first.splitlines(), again.splitlines()) if x != y][:2]
                        p.violation("C30/history-dependent-source/" + _construct(a), {
                            "msg": f"{a!r} [{env2name}] compiles differently after compiling {list(between)!r}: {diff} "
                                   f"(lines {len(first.splitlines())} -> {len(again.splitlines())})",
                            "script": "import jinja2\ne=jinja2.Environment(extensions=['jinja2.ext.i18n'])\na=%r\ns1=e.compile(a,raw=True)\n"
                                      "for b in %r: e.compile(b,raw=True)\nprint(s1==e.compile(a,raw=True))\n" % (a, list(between))})
        p.sig(("history", i, ename))
    p.sample({"part": "compile history", "template": HISTORY[i]}, cap=1)
    return p


def dispatch(arg):
    return history_shard(arg[1]) if arg[0] == "h" else shard(arg[1])


def _construct(src):
    for k in ("trans", "from", "import", "macro", "call", "for", "if", "with", "block", "set"):
        if "{% " + k in src:
            return k
    return "expr"


def replay(src, ename, choices):
    core.import_all_jinja()
    e6.install()
    env = dict(envs())[ename]
    e6.ORACLE.reset()
    a = env.compile(src, raw=True)
    e6.ORACLE.reset(choices)
    b = env.compile(src, raw=True)
    for x, y in zip(a.splitlines(), b.splitlines()):
        if x != y:
            print("default :", x)
            print("deviated:", y)


SEED_SCRIPT = r"""
import sys, json, hashlib
sys.path.insert(0, sys.argv[1])
sys.path.insert(0, sys.argv[2])
from checks import c30
out = {}
for i, src in enumerate(c30.FAMILY):
    for ename, env in c30.envs():
        try:
            out[f"{i}/{ename}"] = hashlib.sha1(env.compile(src, name="t", filename="t.html", raw=True).encode()).hexdigest()
        except Exception as e:
            out[f"{i}/{ename}"] = "ERR " + type(e).__name__
print(json.dumps(out))
"""


def run(ctx: core.Ctx):
    core.import_all_jinja()
    bound = 1 if ctx.quick else 2
    ctx.rule = ("every template of the family x 3 environments, compiled under every alternative iteration order at up to "
                f"{bound} iteration point(s) of the owned sets; distinct = distinct (template, environment, #points, source hash)")
    ctx.assumptions += ["sets that feed code generation are created through the name `set` in idtracking/compiler/ext and, for constant folding, filters/tests/utils/optimizer/parser",
                        "PYTHONHASHSEED subprocesses are a non-exhaustive cross-check of the un-owned remainder"]
    extra = corpus_sources()
    fam = FAMILY + (more_templates() if not ctx.quick else more_templates()[:100]) + extra
    ctx.pmap(dispatch, [("s", (i, s, bound if i < len(FAMILY) else 1)) for i, s in enumerate(fam)] + [("h", i) for i in range(len(HISTORY))])
    ctx.cov["bounds"] = {"deviation_bound": bound, "family": len(FAMILY), "generator_programs": len(fam) - len(FAMILY) - len(extra), "corpus_sources": len(extra)}
    # real hash seeds (cross-check)
    results = {}
    for seed in range(8):
        env = dict(os.environ, PYTHONHASHSEED=str(seed), PYTHONDONTWRITEBYTECODE="1")
        r = subprocess.run([sys.executable, "-W", "ignore", "-c", SEED_SCRIPT, core.SRC, core.VERIF], capture_output=True, text=True, env=env)
        if r.returncode != 0:
            raise core.HarnessError("seed subprocess failed: " + r.stderr[-500:])
        results[seed] = json.loads(r.stdout.strip().splitlines()[-1])
        ctx.evals += len(results[seed])
    for key in results[0]:
        vals = {results[s][key] for s in results}
        if len(vals) > 1:
            i = int(key.split("/")[0])
            ctx.violation("C30/hashseed-dependent-source/" + _construct(FAMILY[i]), {
                "msg": f"{FAMILY[i]!r} [{key}] compiles differently under PYTHONHASHSEED 0..7: {sorted(vals)}",
                "script": "import subprocess,sys,os\nsrc=%r\nfor s in range(4):\n    print(subprocess.run([sys.executable,'-c','import sys;sys.path.insert(0,sys.argv[1]);import jinja2,hashlib;print(hashlib.sha1(jinja2.Environment(extensions=[\"jinja2.ext.i18n\"]).compile(sys.argv[2],raw=True).encode()).hexdigest())',os.path.join(os.environ.get('VERIF_REPO','/repo'),'src'),src],env=dict(os.environ,PYTHONHASHSEED=str(s)),capture_output=True,text=True).stdout)\n" % FAMILY[i]})
    ctx.cov["hashseed_subprocesses"] = 8
