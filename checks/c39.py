"""C39 — the raw token stream (Environment.lex) is lossless and line-accurate."""
from __future__ import annotations

from vf import core, gen_ws as g

META = {
    "level": "exploration",
    "engine": "E1",
    "technique": "bounded-exhaustive enumeration of structural template skeletons printed under every trim/lstrip "
    "setting, line-break form and several delimiter sets; the (lineno, type, value) stream of Environment.lex is "
    "compared with the span layout predicted by the reference whitespace model R-ws",
    "text": "For every skeleton (text chunks x block/comment/variable/raw tags x every admitted -/+ modifier, plus tags "
    "that contain line breaks: multi-line expressions, string literals, comments, raw bodies), every trim_blocks/"
    "lstrip_blocks setting, keep_trailing_newline on/off, each of the line-break forms \\n, \\r\\n, \\r and six "
    "delimiter sets: the concatenated token values equal the normalised source minus exactly the spans R-ws marks "
    "as removed on the left of a tag; whitespace removed on the right of a tag is carried by that tag's closing "
    "token and by no data token; the data tokens are exactly the text R-ws keeps; and every token's line number is "
    "1 + the number of line breaks in the normalised source before the token's start offset.",
    "note": "Bounded: <= 2 tags per skeleton (thorough 3), chunk alphabet of 11 (thorough 13) strings, one statement form per tag kind. Where the "
    "removed whitespace lives in the token stream (left side: dropped; right side: inside the closing-delimiter token) "
    "is calibrated on the pinned tree - the property text only says it is removed. Token type names other than "
    "'data' are not compared.",
    "design_ref": "DESIGN.md §4 C39, §3 R-ws",
}

NL_FORMS = ("\n", "\r\n", "\r")
RAW_BODY_A = " \n a\n  "
RAW_BODY_ML = "x\n\n y\n  "

ML_KINDS = ("block_ml", "comment_ml", "var_ml", "var_str")


def ml_tags(mods="all"):
    out = []
    for k in ML_KINDS:
        mm = g.MODS_VAR if g.base(k) == "var" else g.MODS_BLOCK
        if mods == "few":
            mm = [("", ""), ("-", "-")]
        for l, r in mm:
            out.append((k, l, r))
    for m in (g.MODS_RAW_OUTER if mods == "all" else [("", "", "", ""), ("-", "-", "-", "-")]):
        out.append(("raw", m[0], m[1], RAW_BODY_ML, m[2], m[3]))
    return out


def phases(quick):
    """[(name, ntags, chunk_slots, tagset, delimiter set names, keep_trailing values, newline forms)]"""
    full = g.CHUNKS + ("\n\n",) if quick else g.CHUNKS + g.CHUNKS_EXTRA
    alld = tuple(g.DELIMS)
    ph = [
        ("0tags", 0, [full], [], alld, (False, True), NL_FORMS),
        ("1tag/full", 1, [full, full], g.tags("full", full), ("default",), (False, True), NL_FORMS),
        ("1tag/delims", 1, [full, full], g.tags("outer", (RAW_BODY_A,)) + ml_tags(), alld, (False, True), NL_FORMS),
        ("2tags/mid-full-mid", 2, [g.CHUNKS_MID, full, g.CHUNKS_MID], g.tags("outer", (RAW_BODY_A,)),
         ("default",), (False,), NL_FORMS),
        ("2tags/multiline", 2, [g.CHUNKS_SMALL] * 3, ml_tags(), ("default",), (False,), NL_FORMS),
        ("2tags/delims", 2, [g.CHUNKS_SMALL] * 3, g.tags("none") + ml_tags("few"), alld[1:], (False,), ("\n", "\r\n")),
    ]
    ph += [
        ("1tag/unicode-ws", 1, [g.CHUNKS_WS, g.CHUNKS_WS], g.tags("full", g.CHUNKS_WS), ("default", "asp"), (False, True), NL_FORMS),
        ("2tags/unicode-ws", 2, [("", "\xa0"), g.CHUNKS_WS, ("", "\n\x0b")],
         g.tags("none") + [("raw", m, "", RAW_BODY_A, "", m) for m in ("", "-")], ("default",), (False,), NL_FORMS),
    ]
    ph += [
        # the lex() generator is consumed lazily; after its first token another environment that differs only in
        # lstrip_blocks fetches its lexer
        ("1tag/interleaved-lex", 1, [g.CHUNKS_MID, g.CHUNKS_MID], g.tags("outer", (RAW_BODY_A,)), ("default",), (False,),
         ("\n",), "interleave"),
        ("2tags/interleaved-lex", 2, [("", " \n "), g.CHUNKS_SMALL, ("", "\n  ")],
         g.tags("none") + [("raw", m, "", RAW_BODY_A, "", m) for m in ("", "-")], ("default",), (False,), ("\n",), "interleave"),
    ]
    if not quick:
        ph += [
            ("2tags/full", 2, [full] * 3, g.tags("outer", (RAW_BODY_A,)) + ml_tags("few"),
             ("default",), (False,), NL_FORMS),
            ("3tags/small", 3, [g.CHUNKS_SMALL] * 4,
             g.tags("none") + [("raw", m, "", RAW_BODY_A, "", m) for m in ("", "-")]
             + [(k, "", "") for k in ML_KINDS],
             ("default",), (False,), ("\n", "\r\n")),
        ]
    return ph


def predict(frags):
    """From the R-ws layout: (kept, starts_map, normalised, data_values).

    kept       = what the token values must concatenate to
    offs[i]    = offset in `normalised` of kept[i] (a token starting right after
                 a left-removed span starts after it)
    normalised = source after line-break normalisation and trailing-newline removal
    """
    kept = []
    offs = []
    norm = []
    data = []
    pos = 0
    for text, role, _ in frags:
        if role == "eof":
            continue  # not part of the normalised source
        norm.append(text)
        if role != "lcut":
            kept.append(text)
            offs.extend(range(pos, pos + len(text)))
            if role == "data":
                data.append(text)
        pos += len(text)
    return "".join(kept), offs, "".join(norm), data


def judge(tokens, frags):
    """None if the token stream agrees with the prediction, else (kind, message)."""
    kept, offs, norm, data = predict(frags)
    got = "".join(t[2] for t in tokens)
    if got != kept:
        return "values", f"token values concatenate to {got!r}, expected {kept!r}"
    gdata = [t[2] for t in tokens if t[1] == "data"]
    if gdata != data:
        return "data", f"data tokens {gdata!r}, expected {data!r}"
    pos = 0
    for lineno, typ, val in tokens:
        start = offs[pos] if pos < len(offs) else len(norm)
        want = 1 + norm.count("\n", 0, start)
        if lineno != want:
            return "lineno", f"token {(lineno, typ, val)!r} starts at offset {start} of {norm!r}: line {want}, reported {lineno}"
        pos += len(val)
    return None


def tag_label(t):
    if t[0] == "raw":
        return f"raw[{t[1]}|{t[2]}|{t[4]}|{t[5]}]"
    return f"{t[0]}[{t[1]}|{t[2]}]"


def make_env(dname, trim, lstrip, ktn):
    from jinja2 import Environment

    return Environment(trim_blocks=trim, lstrip_blocks=lstrip, keep_trailing_newline=ktn,
                       **g.env_kwargs(g.DELIMS[dname]))


def shard(arg) -> core.Part:
    quick, phase_idx, k, n = arg
    name, ntags, slots, tagset, dnames, ktns, nls, *rest = phases(quick)[phase_idx]
    interleave = bool(rest)
    p = core.Part()
    nsk = 0
    for sk in g.skeletons(ntags, tagset=tagset, shard=k, nshards=n, chunk_slots=slots):
        nsk += 1
        labels = "+".join(tag_label(t) for t in sk[1::2])
        for dname in dnames:
            delims = g.DELIMS[dname]
            src_n = g.to_source(sk, delims)
            for ktn in ktns:
                for trim, lstrip in g.SETTINGS:
                    frags = g.layout(sk, trim, lstrip, ktn, delims)
                    roles = tuple(f[1] for f in frags if f[1] in ("lcut", "rcut", "eof"))
                    for nl in nls:
                        if nl != "\n" and "\n" not in src_n:
                            continue
                        p.evals += 1
                        src = src_n if nl == "\n" else src_n.replace("\n", nl)
                        try:
                            if interleave:
                                gen = make_env(dname, trim, lstrip, ktn).lex(src)
                                toks = [t for _, t in zip(range(1), gen)]
                                make_env(dname, trim, not lstrip, ktn).lexer  # noqa: B018  another environment in between
                                toks += list(gen)
                            else:
                                toks = list(make_env(dname, trim, lstrip, ktn).lex(src))
                            bad = judge(toks, frags)
                        except Exception as e:  # noqa: BLE001
                            toks = None
                            bad = ("raises", f"{type(e).__name__}: {e}")
                        if roles or "\n" in src_n:
                            p.sig((labels, dname, trim, lstrip, ktn, roles))
                        if bad:
                            p.violation(f"C39/{bad[0]}/trim={int(trim)},lstrip={int(lstrip)}/{labels}", {
                                "msg": f"source {src!r} delimiters={dname} trim_blocks={trim} lstrip_blocks={lstrip} "
                                       f"keep_trailing_newline={ktn}: {bad[1]}",
                                "skeleton": g.jsonable(sk), "source": src, "tokens": repr(toks), "size": len(src),
                                "script": "import jinja2\n"
                                          f"env = jinja2.Environment(trim_blocks={trim}, lstrip_blocks={lstrip}, "
                                          f"keep_trailing_newline={ktn}, **{g.env_kwargs(delims)!r})\n"
                                          f"for tok in env.lex({src!r}):\n    print(tok)\n"
                                          f"print({bad[1]!r})\n",
                            })
        p.sample({"skeleton": g.jsonable(sk), "source": g.to_source(sk)}, cap=1)
    p.count("skeletons/" + name, nsk)
    return p


def run(ctx: core.Ctx):
    core.import_all_jinja()
    ctx.rule = ("all skeletons per phase x delimiter sets x keep_trailing_newline x 4 trim/lstrip settings x line-break "
                "forms (forms other than \\n only for sources that contain a line break); non-trivial = R-ws removes a "
                "span or the source has a line break; distinct = distinct (tag kinds+modifiers, delimiter set, settings, "
                "removed-span kinds)")
    ctx.assumptions += [
        "R-ws rules K1-K4 calibrated as in C12",
        "CALIBRATED: whitespace removed on the left of a tag (lstrip_blocks, '-' before the tag) is absent from the token "
        "stream; whitespace removed on the right (trim_blocks, '-' after the tag) is part of the closing-delimiter token's value",
        "CALIBRATED: token values use \\n for every line break (the source is normalised before lexing; newline_sequence applies later)",
        "only the token type name 'data' is relied upon",
    ]
    ph = phases(ctx.quick)
    shards = []
    bounds = {}
    for i, (name, ntags, slots, tagset, dnames, ktns, nls, *_rest) in enumerate(ph):
        total = len(tagset) ** ntags
        for s in slots:
            total *= len(s)
        n = max(1, min(160, len(tagset) ** ntags))
        shards += [(ctx.quick, i, k, n) for k in range(n)]
        bounds[name] = {"tags": ntags, "chunk_alphabet_sizes": [len(s) for s in slots], "tag_variants": len(tagset),
                        "skeletons": total, "delimiter_sets": list(dnames), "keep_trailing_newline": list(ktns),
                        "line_break_forms": [repr(x) for x in nls], "settings": 4}
    ctx.cov["bounds"] = bounds
    ctx.pmap(shard, shards)
    ctx.viol.sort(key=lambda v: (v[0], v[1].get("size", 0), v[1].get("msg", "")))  # smallest input first per signature
    ctx.cov["shards_completed"] = len(shards)
    for name, b in bounds.items():
        if ctx.counters.get("skeletons/" + name, 0) != b["skeletons"]:
            raise core.HarnessError(f"phase {name}: enumerated {ctx.counters.get('skeletons/' + name)} of {b['skeletons']}")
