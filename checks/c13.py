"""C13 — equivalent syntax configurations render identically; environments do not interfere."""
from __future__ import annotations

import itertools

from vf import core, gen_ws as g

try:  # statement programs of C03 (another module of this framework); fall back to a small family
    from vf import gen_stmt as G
except Exception:  # noqa: BLE001
    G = None

META = {
    "level": "exploration",
    "engine": "E1+E2",
    "technique": "bounded-exhaustive enumeration of template skeletons / statement programs printed under six delimiter "
    "sets, of whole-line tag programs in block and line-statement form, of option grids for Template() vs "
    "Environment.from_string, of overlay chains, and of all short histories of environment creation / use "
    "(explicit-state enumeration by history replay) against 'renders like the same configuration alone'",
    "text": "(i) every C12 skeleton (quick: <= 2 tags) and every gen_stmt program (<= 2 statement nodes) is printed under "
    "six delimiter sets and must render identically under all four trim/lstrip settings; (ii) every well-nested "
    "program of <= 4 (thorough 5) whole lines (text, for/if/else/set statements incl. two that continue over a line break inside brackets, comments, two indentations) renders "
    "the same in block form and in line-statement / line-comment form in a trim_blocks+lstrip_blocks environment; "
    "(iii) jinja2.Template(src, **opts) equals Environment(**opts).from_string(src) over a 288-point option grid; "
    "(iv) every overlay chain of <= 3 single-option steps renders (by name through a DictLoader, i.e. with the template "
    "cache in play, and through from_string) like a fresh environment with the final options and "
    "leaves its ancestors unchanged; (v) every history of <= 4 (thorough 5) operations over {create environment, render, "
    "Template(), overlay} on pairs of configurations that differ from a base in exactly one lexer-cache-key field, "
    "plus an eviction phase with 52 configurations and 11 spontaneous environments: each render equals the render of "
    "the same configuration alone after clear_caches().",
    "note": "Whole-line comments are translated both to the form the property demands ({# c #}; disagreement is the "
    "documented behaviour F15 and is reported under the signature C13/line-comment-keeps-newline) and to the "
    "documented-equivalent form ({# c +#}), which is checked strictly. Line statements followed by blank lines are "
    "outside the property. Bounded program sizes, one probe template per history.",
    "design_ref": "DESIGN.md §4 C13, §3 E2",
}

SETS = tuple(g.DELIMS)
RAW_BODY_A = " \n a\n  "


def outcome(f):
    try:
        return ("ok", f())
    except Exception as e:  # noqa: BLE001
        return ("err", type(e).__name__, str(e))


def tag_label(t):
    if t[0] == "raw":
        return f"raw[{t[1]}|{t[2]}|{t[4]}|{t[5]}]"
    return f"{t[0]}[{t[1]}|{t[2]}]"


# ---------------------------------------------------------------- (i) delimiter sets, skeletons


def skel_phases(quick):
    raw4 = [("raw", ol, "", RAW_BODY_A, "", cr) for ol in ("", "-") for cr in ("", "-")]
    if quick:
        return [
            ("1tag", 1, [g.CHUNKS, g.CHUNKS], g.tags("outer", (RAW_BODY_A,))),
            ("2tags", 2, [("", " \n "), g.CHUNKS_SMALL, ("", "\n  ")], g.tags("none") + raw4),
        ]
    full = g.CHUNKS + g.CHUNKS_EXTRA
    return [
        ("1tag", 1, [full, full], g.tags("full", g.CHUNKS_MID)),
        ("2tags", 2, [g.CHUNKS_MID] * 3, g.tags("outer", (RAW_BODY_A,))),
    ]


def skel_shard(arg) -> core.Part:
    from jinja2 import Environment

    _, quick, phase_idx, k, n = arg
    name, ntags, slots, tagset = skel_phases(quick)[phase_idx]
    p = core.Part()
    nsk = 0
    for sk in g.skeletons(ntags, tagset=tagset, shard=k, nshards=n, chunk_slots=slots):
        nsk += 1
        labels = "+".join(tag_label(t) for t in sk[1::2])
        srcs = [g.to_source(sk, g.DELIMS[d]) for d in SETS]
        for trim, lstrip in g.SETTINGS:
            outs = []
            for d, src in zip(SETS, srcs):
                p.evals += 1
                kw = g.env_kwargs(g.DELIMS[d])
                outs.append(outcome(lambda: Environment(trim_blocks=trim, lstrip_blocks=lstrip, **kw).from_string(src).render()))
            roles = tuple(f[1] for f in g.layout(sk, trim, lstrip) if f[1] in ("lcut", "rcut", "eof"))
            if roles:
                p.sig(("skel", labels, trim, lstrip, roles))
            for d, src, o in zip(SETS[1:], srcs[1:], outs[1:]):
                if o != outs[0]:
                    kw = g.env_kwargs(g.DELIMS[d])
                    p.violation(f"C13/delims/{d}/trim={int(trim)},lstrip={int(lstrip)}/{labels}", {
                        "msg": f"{srcs[0]!r} renders {outs[0]!r} but its translation {src!r} under delimiter set {d} "
                               f"renders {o!r} (trim_blocks={trim}, lstrip_blocks={lstrip})",
                        "skeleton": g.jsonable(sk),
                        "script": "import jinja2\n"
                                  f"print(repr(jinja2.Environment(trim_blocks={trim}, lstrip_blocks={lstrip}).from_string({srcs[0]!r}).render()))\n"
                                  f"print(repr(jinja2.Environment(trim_blocks={trim}, lstrip_blocks={lstrip}, **{kw!r}).from_string({src!r}).render()))\n",
                    })
        p.sample({"part": "i/skeleton", "skeleton": g.jsonable(sk), "sources": dict(zip(SETS, srcs))}, cap=1)
    p.count("i/skeletons/" + name, nsk)
    return p


# ---------------------------------------------------------------- (i) delimiter sets, statement programs

DEFAULT_TOKENS = ("{%", "%}", "{{", "}}", "{#", "#}")


def split_default(src):
    """[(kind, text)] kind in text / bs be vs ve cs ce: structural view of a source printed with
    the default delimiters by a printer whose text and expressions never contain them."""
    names = dict(zip(DEFAULT_TOKENS, ("bs", "be", "vs", "ve", "cs", "ce")))
    out = []
    i = 0
    cur = []
    while i < len(src):
        two = src[i:i + 2]
        if two in names:
            if cur:
                out.append(("text", "".join(cur)))
                cur = []
            out.append((names[two], two))
            i += 2
        else:
            cur.append(src[i])
            i += 1
    if cur:
        out.append(("text", "".join(cur)))
    return out


def translate(src, delims):
    """Print the structural view under another delimiter set; None if the result would be
    ambiguous (a delimiter of the target set appears where none was intended)."""
    m = {"bs": delims["block"][0], "be": delims["block"][1], "vs": delims["var"][0], "ve": delims["var"][1],
         "cs": delims["comment"][0], "ce": delims["comment"][1]}
    parts = split_default(src)
    out = []
    pos = 0
    starts_at = set()
    inside = None
    for kind, text in parts:
        if kind == "text":
            if inside is not None and m[inside] in text:
                return None  # closing delimiter inside the tag's own text
            out.append(text)
            pos += len(text)
        else:
            if kind in ("bs", "vs", "cs"):
                starts_at.add(pos)
                inside = {"bs": "be", "vs": "ve", "cs": "ce"}[kind]
            else:
                inside = None
            out.append(m[kind])
            pos += len(m[kind])
    res = "".join(out)
    for s in (m["bs"], m["vs"], m["cs"]):
        i = res.find(s)
        while i != -1:
            if i not in starts_at:
                return None
            i = res.find(s, i + 1)
    return res


def _fallback_programs():
    atoms = ["a", "{{ x }}", "{# c #}", "{% set x = 2 %}", "\n  ", '{{ {"k": x}["k"] }}', "{{ x > 0 }}"]
    comp = [("{% for i in [1, 2] %}", "{% endfor %}"), ("{% if x > 1 %}", "{% else %}e{% endif %}"),
            ("{% filter upper %}", "{% endfilter %}"), ("{% with x = 3 %}", "{% endwith %}")]
    items = list(atoms)
    for o, c in comp:
        for b in atoms + ["{{ i }}"]:
            items.append(o + b + c)
    for n in (1, 2):
        for t in itertools.product(items, repeat=n):
            yield "".join(t)


def stmt_shard(arg) -> core.Part:
    from jinja2 import Environment

    _, profile, max_nodes, k, K = arg
    p = core.Part()
    if G is not None:
        progs = G.programs(max_nodes, G.POOL2, profile, shard=(k, K))
        extra = dict(G.ENV_KWARGS)
    else:
        progs = (s for i, s in enumerate(_fallback_programs()) if i % K == k)
        extra = {}
    for prog in progs:
        if G is not None:
            src = G.to_source(G.with_epilogue(prog, G.POOL2))
            datas = G.data_assignments(G.POOL2, prog)
            datas = [datas[0], datas[-1]] if len(datas) > 1 else datas
        else:
            src = prog
            datas = [{"x": 1}]
        p.count("i/programs")
        srcs = []
        for d in SETS:
            s = translate(src, g.DELIMS[d])
            if s is None:
                p.count("i/programs_untranslatable/" + d)
            srcs.append(s)
        for settings in ((False, False), (True, True)):
            for data in datas:
                outs = []
                for d, s in zip(SETS, srcs):
                    if s is None:
                        outs.append(None)
                        continue
                    p.evals += 1
                    kw = g.env_kwargs(g.DELIMS[d])
                    rd = G.render_data(data) if G is not None else data
                    o = outcome(lambda: Environment(trim_blocks=settings[0], lstrip_blocks=settings[1], **kw, **extra)
                                .from_string(s).render(**rd))
                    outs.append(o if o[0] == "ok" else o[:2])
                if outs[0][0] == "ok":
                    p.sig(("stmt", outs[0][1]))
                for d, s, o in zip(SETS[1:], srcs[1:], outs[1:]):
                    if o is not None and o != outs[0]:
                        p.violation(f"C13/delims-stmt/{d}", {
                            "msg": f"{src!r} renders {outs[0]!r} but {s!r} under delimiter set {d} renders {o!r} "
                                   f"(trim/lstrip={settings}, data={data!r})",
                            "script": "import jinja2\n"
                                      + ("from vf import gen_stmt as G\n" f"data = G.render_data({data!r})\n" if G is not None
                                         else f"data = {data!r}\n")
                                      + f"kw = dict(trim_blocks={settings[0]}, lstrip_blocks={settings[1]}, **{extra!r})\n"
                                      f"print(repr(jinja2.Environment(**kw).from_string({src!r}).render(**data)))\n"
                                      f"print(repr(jinja2.Environment(**kw, **{g.env_kwargs(g.DELIMS[d])!r}).from_string({s!r}).render(**data)))\n",
                        })
        p.sample({"part": "i/program", "default": src, "asp": srcs[1]}, cap=1)
    return p


# ---------------------------------------------------------------- (ii) line statements / comments

TEXT_LINES = ("a", "  b{{ x }}{{ i }}", "")
STMTS = ("for i in [1, 2]", "endfor", "if x", "else", "endif", "set x = 2")
INDENTS = ("", "  ")
LINE_ALPHABET = ([("t", t) for t in TEXT_LINES] + [("s", ind, st) for st in STMTS for ind in INDENTS]
                 + [("c", ind, "c") for ind in INDENTS]
                 # statements that span two lines inside open brackets (documented for line statements)
                 + [("s", "", "for i in [1,\n  2]"), ("s", "  ", "set x = (2 +\n    0)")])


def well_nested(lines):
    stack = []
    for ln in lines:
        if ln[0] != "s":
            continue
        w = ln[2].split()[0]
        if w in ("for", "if"):
            stack.append(w)
        elif w == "else":
            if not stack or stack[-1] != "if":
                return False
            stack[-1] = "if-else"
        elif w == "endfor":
            if not stack or stack.pop() != "for":
                return False
        elif w == "endif":
            if not stack or not stack.pop().startswith("if"):
                return False
    return not stack


def in_scope(lines):
    """the property's quantifier: a line statement is not followed by a blank line."""
    for a, b in zip(lines, lines[1:]):
        if a[0] == "s" and b[0] == "t" and b[1].strip() == "":
            return False
    return True


def print_lines(lines, form, final_nl, colon=False):
    out = []
    for ln in lines:
        if ln[0] == "t":
            out.append(ln[1])
        elif ln[0] == "s":
            if form == "line":
                opener = ln[2].split()[0] in ("for", "if", "else")
                out.append(f"{ln[1]}# {ln[2]}" + (":" if colon and opener else ""))
            else:
                out.append(f"{ln[1]}{{% {ln[2]} %}}")
        else:
            if form == "line":
                out.append(f"{ln[1]}## {ln[2]}")
            elif form == "block-demanded":
                out.append(f"{ln[1]}{{# {ln[2]} #}}")
            else:  # documented equivalent: the line comment ends before the newline
                out.append(f"{ln[1]}{{# {ln[2]} +#}}")
    return "\n".join(out) + ("\n" if final_nl else "")


def line_shard(arg) -> core.Part:
    from jinja2 import Environment

    _, prefix, lengths = arg
    p = core.Part()

    def render(src, line):
        kw = {"line_statement_prefix": "#", "line_comment_prefix": "##"} if line else {}
        o = outcome(lambda: Environment(trim_blocks=True, lstrip_blocks=True, **kw).from_string(src).render(x=1))
        return o if o[0] == "ok" else o[:2]

    for L in lengths:
        rest = L - len(prefix)
        if rest < 0:
            continue
        for tail in itertools.product(LINE_ALPHABET, repeat=rest):
            lines = tuple(prefix) + tail
            if not well_nested(lines) or not in_scope(lines):
                continue
            has_c = any(ln[0] == "c" for ln in lines)
            has_s = any(ln[0] == "s" for ln in lines)
            if not (has_c or has_s):
                continue
            for final_nl in (False, True):
                p.count("ii/programs")
                src_doc = print_lines(lines, "block-documented", final_nl)
                src_dem = print_lines(lines, "block-demanded", final_nl)
                o_doc = render(src_doc, False)
                p.evals += 1
                line_srcs = [print_lines(lines, "line", final_nl)]
                if any(ln[0] == "s" and ln[2].split()[0] in ("for", "if", "else") for ln in lines):
                    line_srcs.append(print_lines(lines, "line", final_nl, colon=True))
                if o_doc[0] == "ok":
                    p.sig(("line", o_doc[1]))
                for ls in line_srcs:
                    p.evals += 1
                    o_line = render(ls, True)
                    if o_line != o_doc:
                        what = "line-comment" if has_c else "line-statement"
                        p.violation(f"C13/{what}/differs-from-documented-block-form", {
                            "msg": f"line form {ls!r} renders {o_line!r}; block form {src_doc!r} renders {o_doc!r} "
                                   "(both trim_blocks+lstrip_blocks)",
                            "script": _line_script(ls, src_doc),
                        })
                    if has_c:
                        o_dem = render(src_dem, False)
                        p.evals += 1
                        if o_line != o_dem:
                            if o_line == o_doc:
                                sig = "C13/line-comment-keeps-newline"
                            else:
                                sig = "C13/line-comment/differs-from-demanded-block-form"
                            p.violation(sig, {
                                "msg": f"line form {ls!r} renders {o_line!r}; block-comment form {src_dem!r} renders "
                                       f"{o_dem!r} (both trim_blocks+lstrip_blocks)",
                                "script": _line_script(ls, src_dem),
                            })
            p.sample({"part": "ii", "line_form": print_lines(lines, "line", True),
                      "block_form": print_lines(lines, "block-documented", True)}, cap=1)
    return p


def _line_script(line_src, block_src):
    return ("import jinja2\n"
            "e1 = jinja2.Environment(trim_blocks=True, lstrip_blocks=True, line_statement_prefix='#', line_comment_prefix='##')\n"
            "e2 = jinja2.Environment(trim_blocks=True, lstrip_blocks=True)\n"
            f"print(repr(e1.from_string({line_src!r}).render(x=1)))\n"
            f"print(repr(e2.from_string({block_src!r}).render(x=1)))\n")


# ---------------------------------------------------------------- (iii) Template() vs Environment().from_string


def option_grid():
    for d in SETS:
        for trim in (False, True):
            for lstrip in (False, True):
                for ktn in (False, True):
                    for ns in ("\n", "\r\n", "\r"):
                        for lp in (False, True):
                            kw = dict(g.env_kwargs(g.DELIMS[d]), trim_blocks=trim, lstrip_blocks=lstrip,
                                      keep_trailing_newline=ktn, newline_sequence=ns)
                            if lp:
                                kw.update(line_statement_prefix="%%", line_comment_prefix="##")
                            yield d, kw


def tmpl_shard(arg) -> core.Part:
    import jinja2

    _, k, n = arg
    p = core.Part()
    skels = list(g.skeletons(1, chunk_slots=[("\n  ", "a"), (" \n", "\n")], tagset=g.tags("outer", (RAW_BODY_A,))))
    for i, (d, kw) in enumerate(option_grid()):
        if i % n != k:
            continue
        vs, ve = g.DELIMS[d]["var"]
        for sk in skels:
            src = g.to_source(sk, g.DELIMS[d]) + f"\n%% set q = 5\n## k\n{vs} q {ve}\n"
            p.evals += 2
            a = outcome(lambda: jinja2.Template(src, **kw).render())
            b = outcome(lambda: jinja2.Environment(**kw).from_string(src).render())
            p.sig(("tmpl", d, kw["trim_blocks"], kw["lstrip_blocks"], kw["keep_trailing_newline"], kw["newline_sequence"],
                   "line_statement_prefix" in kw, tag_label(sk[1])))
            if a != b:
                p.violation(f"C13/template-ctor/{d}", {
                    "msg": f"Template({src!r}, **{kw!r}).render() = {a!r} but Environment(**opts).from_string(src).render() = {b!r}",
                    "script": "import jinja2\n"
                              f"kw = {kw!r}\nsrc = {src!r}\n"
                              "print(repr(jinja2.Template(src, **kw).render()))\n"
                              "print(repr(jinja2.Environment(**kw).from_string(src).render()))\n",
                })
        p.sample({"part": "iii", "options": kw, "source": src}, cap=1)
    return p


# ---------------------------------------------------------------- (iv) overlay chains

OV_FIELDS = [
    ("trim_blocks", False, True), ("lstrip_blocks", False, True), ("keep_trailing_newline", False, True),
    ("newline_sequence", "\n", "\r\n"), ("delims", "default", "asp"),
    ("line_statement_prefix", None, "%%"), ("line_comment_prefix", None, "##"),
]
OV_SRC = ("  {% set v = 1 %}\n{{ v }}{# c #}\n  <% set w = 2 %>\n<%= w %><%# d %>\n"
          "%% set z = 3\n## e\n{{ z }}<%= z %>\n")


def ov_kwargs(bits, only=None):
    kw = {}
    for i, (name, v0, v1) in enumerate(OV_FIELDS):
        if only is not None and i not in only:
            continue
        v = v1 if bits[i] else v0
        if name == "delims":
            kw.update(g.env_kwargs(g.DELIMS[v]))
        else:
            kw[name] = v
    return kw


def overlay_shard(arg) -> core.Part:
    import jinja2

    _, base, maxlen, recheck_all = arg
    p = core.Part()
    steps = [(i, b) for i in range(len(OV_FIELDS)) for b in (0, 1)]
    ref = {}

    def mkenv(bits):
        return jinja2.Environment(loader=jinja2.DictLoader({"t": OV_SRC}), **ov_kwargs(bits))

    def observe(env, both):
        # by name through the loader (template cache in play) and, for the final environment, from_string too
        o = [outcome(lambda: env.get_template("t").render())]
        if both:
            o.append(outcome(lambda: env.from_string(OV_SRC).render()))
        return tuple(o)

    def reference(bits, both):
        if bits not in ref:
            jinja2.clear_caches()
            ref[bits] = observe(mkenv(bits), True)
        return ref[bits] if both else ref[bits][:1]

    for n in range(1, maxlen + 1):
        for chain in itertools.product(steps, repeat=n):
            jinja2.clear_caches()
            envs = [(tuple(base), mkenv(base))]
            first = observe(envs[0][1], False)  # the parent loads the template before it is overlaid
            for i, b in chain:
                bits, env = envs[-1]
                nb = bits[:i] + (b,) + bits[i + 1:]
                envs.append((nb, env.overlay(**ov_kwargs(nb, only={i}))))
            p.evals += 1
            p.count("iv/chains")
            bad = None
            if first != reference(tuple(base), False):
                bad = ("base-before", tuple(base), first, False)
            check = envs[::-1] if recheck_all else [envs[-1], envs[0]]
            for bits, env in check:
                if bad:
                    break
                final = env is envs[-1][1]
                got = observe(env, final)
                if got != reference(bits, final):
                    bad = ("final" if final else "ancestor-after", bits, got, final)
            p.sig(("ov", envs[-1][0], len(chain)))
            if bad:
                names = [OV_FIELDS[i][0] for i, _ in chain]
                p.violation(f"C13/overlay/{bad[0]}/{'+'.join(sorted(set(names)))}", {
                    "msg": f"base options {ov_kwargs(tuple(base))!r}, overlay steps "
                           f"{[ov_kwargs(tuple(base[:i]) + (b,) + tuple(base[i + 1:]), only={i}) for i, b in chain]!r}: "
                           f"environment with options {ov_kwargs(bad[1])!r} renders (get_template[, from_string]) {bad[2]!r}, "
                           f"a fresh environment with these options renders {reference(bad[1], bad[3])!r}",
                    "script": "from checks import c13\n"
                              f"c13.replay_overlay({tuple(base)!r}, {chain!r})\n",
                })
        p.sample({"part": "iv", "base": ov_kwargs(tuple(base)), "steps": [[OV_FIELDS[i][0], b] for i, b in chain]}, cap=1)
    return p


def replay_overlay(base, chain):
    import jinja2

    core.setup_repo()
    jinja2.clear_caches()

    def mkenv(bits):
        return jinja2.Environment(loader=jinja2.DictLoader({"t": OV_SRC}), **ov_kwargs(bits))

    def observe(env):
        return (outcome(lambda: env.get_template("t").render()), outcome(lambda: env.from_string(OV_SRC).render()))

    env = mkenv(base)
    bits = tuple(base)
    print("base", ov_kwargs(bits), observe(env))
    envs = [(bits, env)]
    for i, b in chain:
        bits = bits[:i] + (b,) + bits[i + 1:]
        env = env.overlay(**ov_kwargs(bits, only={i}))
        envs.append((bits, env))
        print("overlay", ov_kwargs(bits, only={i}))
    for bits, env in envs:
        print(ov_kwargs(bits), "\n   chain env (get_template, from_string):", observe(env),
              "\n   fresh env (get_template, from_string):", observe(mkenv(bits)))


# ---------------------------------------------------------------- (v) cache interference

BASE5 = {
    "block_start_string": "{%", "block_end_string": "%}", "variable_start_string": "{{", "variable_end_string": "}}",
    "comment_start_string": "{#", "comment_end_string": "#}", "line_statement_prefix": None, "line_comment_prefix": None,
    "trim_blocks": False, "lstrip_blocks": False, "newline_sequence": "\n", "keep_trailing_newline": False,
}
VARIANT5 = [
    ("block_start_string", "<%"), ("block_end_string", "%>"), ("variable_start_string", "${"),
    ("variable_end_string", "}"), ("comment_start_string", "<#"), ("comment_end_string", "#>"),
    ("line_statement_prefix", "%%"), ("line_comment_prefix", "##"), ("trim_blocks", True), ("lstrip_blocks", True),
    ("newline_sequence", "\r\n"), ("keep_trailing_newline", True),
]
CONFIGS5 = [dict(BASE5)] + [dict(BASE5, **{k: v}) for k, v in VARIANT5]
SRC5 = ("  {% set v = 1 %}\n{{ v }}{# c #}|<% set v = 2 %}{{ v }}|${ v }}|<# d #}\n"
        "%% set z = 4\n## f\n{{ z }}\n")


def cfg_name(i):
    return "base" if i == 0 else VARIANT5[i - 1][0]


def hist_ops(a, b, maxlen):
    """all histories of <= maxlen operations over configurations a, b that end in an observing operation."""
    cfgs = (a,) if a == b else (a, b)

    def rec(hist, nenv):
        if hist and hist[-1][0] in ("R", "T"):
            yield hist
        if len(hist) == maxlen:
            return
        cands = [("E", c) for c in cfgs] + [("T", c) for c in cfgs] + [("R", j) for j in range(nenv)]
        cands += [("O", j, c) for j in range(nenv) for c in cfgs]
        for op in cands:
            yield from rec(hist + (op,), nenv + (op[0] in ("E", "O")))

    return rec((), 0)


def run_history(hist, src=SRC5, configs=None):
    """Execute a history on the real library after clear_caches(); returns
    (observations [(config index, outcome)] of the R/T operations, canonical state)."""
    import jinja2
    import jinja2.lexer

    configs = configs or CONFIGS5
    jinja2.clear_caches()
    envs = []  # (config index, env)
    obs = []
    for op in hist:
        if op[0] == "E":
            envs.append((op[1], jinja2.Environment(**configs[op[1]])))
        elif op[0] == "T":
            obs.append((op[1], outcome(lambda: jinja2.Template(src, **configs[op[1]]).render())))
        elif op[0] == "R":
            c, env = envs[op[1]]
            obs.append((c, outcome(lambda: env.from_string(src).render())))
        else:
            c, env = envs[op[1]]
            diff = {k: v for k, v in configs[op[2]].items() if configs[c][k] != v}
            envs.append((op[2], env.overlay(**diff)))
    state = (tuple(c for c, _ in envs), len(jinja2.lexer._lexer_cache),
             jinja2.environment.get_spontaneous_environment.cache_info().currsize)
    return obs, state


def alone(i, src=SRC5, configs=None):
    import jinja2

    configs = configs or CONFIGS5
    jinja2.clear_caches()
    return outcome(lambda: jinja2.Environment(**configs[i]).from_string(src).render())


def hist_shard(arg) -> core.Part:
    _, a, b, maxlen = arg
    p = core.Part()
    ref = {c: alone(c) for c in {a, b}}
    if a == 0 and b != 0 and ref[a] == ref[b]:
        # the probe template has a piece for every option whose documented effect changes the output; an option that
        # changes nothing when it is the only difference from the base is being ignored
        k, v = VARIANT5[b - 1]
        p.violation(f"C13/option-ignored/{k}", {
            "msg": f"Environment({k}={v!r}) alone renders the probe template exactly like the base configuration: "
                   f"{ref[b]!r}; the option has no effect",
            "script": "import jinja2\n"
                      f"src = {SRC5!r}\n"
                      f"print(repr(jinja2.Environment().from_string(src).render()))\n"
                      f"print(repr(jinja2.Environment({k}={v!r}).from_string(src).render()))\n",
        })
    states = set()
    for hist in sorted(hist_ops(a, b, maxlen), key=len):  # shortest first
        obs, state = run_history(hist)
        p.evals += 1
        p.count("v/histories")
        p.count("v/transitions", len(hist))
        states.add(state)
        c, got = obs[-1]
        p.sig(("hist", tuple(o[0] for o in hist), c, got[0]))
        if got != ref[c]:
            p.violation(f"C13/interference/{cfg_name(a)}+{cfg_name(b)}/{hist[-1][0]}", {
                "msg": f"history {list(hist)} over configurations {cfg_name(a)}/{cfg_name(b)}: last operation renders "
                       f"{got!r}, the same configuration alone renders {ref[c]!r}",
                "history": [list(o) for o in hist],
                "script": "from checks import c13\n"
                          f"c13.replay_history({hist!r})\n",
            })
        if len(hist) == maxlen:
            p.sample({"part": "v", "configs": [cfg_name(a), cfg_name(b)], "history": [list(o) for o in hist]}, cap=1)
    p.counters["v/states/%d-%d" % (a, b)] = len(states)
    p.count("v/states", len(states))
    return p


def replay_history(hist):
    core.setup_repo()
    obs, _ = run_history(tuple(hist))
    print("E c = Environment(config c); T c = Template(src, **config c); R j = render with j-th environment; "
          "O j c = j-th environment .overlay(...) to config c")
    for i, c in enumerate(CONFIGS5):
        print("config", i, cfg_name(i))
    print("history", hist)
    for c, got in obs:
        print("config", c, "observed", got)
        print("          alone ", alone(c))


EV_N = 52
EV_SRC = "".join("<%d# x #}[%d]" % (k, k) for k in range(EV_N))


def ev_config(k):
    return {"comment_start_string": "<%d#" % k}


def evict_shard(arg) -> core.Part:
    import jinja2
    import jinja2.lexer

    p = core.Part()
    cfgs = [ev_config(k) for k in range(EV_N)]
    ref = [alone(k, EV_SRC, cfgs) for k in range(EV_N)]
    if len(set(ref)) != EV_N or any(r[0] != "ok" for r in ref):
        raise core.HarnessError("eviction probe template does not tell the 52 configurations apart")
    jinja2.clear_caches()
    envs = [jinja2.Environment(**c) for c in cfgs]
    order = list(range(EV_N)) + list(range(EV_N)) + list(range(EV_N - 1, -1, -1))
    spont = [k % 11 for k in range(33)]  # 11 distinct spontaneous environments, LRU of 10, three rounds
    plan = []
    si = 0
    for n, k in enumerate(order):
        plan.append(("R", k))
        if n % 5 == 0 and si < len(spont):
            plan.append(("T", spont[si]))
            si += 1
    plan += [("T", k) for k in spont[si:]]
    max_lex = max_sp = 0
    for op, k in plan:
        p.evals += 1
        p.count("v/transitions")
        if op == "R":
            got = outcome(lambda: envs[k].from_string(EV_SRC).render())
        else:
            got = outcome(lambda: jinja2.Template(EV_SRC, **cfgs[k]).render())
        max_lex = max(max_lex, len(jinja2.lexer._lexer_cache))
        max_sp = max(max_sp, jinja2.environment.get_spontaneous_environment.cache_info().currsize)
        p.sig(("evict", op, k))
        if got != ref[k]:
            p.violation(f"C13/interference/eviction/{op}", {
                "msg": f"eviction phase, operation {(op, k)}: renders {got!r}, alone {ref[k]!r}",
                "script": "from checks import c13\nfrom vf import core\nprint(c13.evict_shard(None).viol[:1])\n",
            })
    p.counters["v/eviction_max_lexer_cache"] = max_lex
    p.counters["v/eviction_max_spontaneous_cache"] = max_sp
    p.count("v/histories")
    p.sample({"part": "v/eviction", "plan_head": plan[:8], "operations": len(plan)}, cap=1)
    return p


# ---------------------------------------------------------------- driver

_DISPATCH = {"skel": skel_shard, "stmt": stmt_shard, "line": line_shard, "tmpl": tmpl_shard,
             "overlay": overlay_shard, "hist": hist_shard, "evict": evict_shard}


def shard(arg) -> core.Part:
    return _DISPATCH[arg[0]](arg)


def run(ctx: core.Ctx):
    core.import_all_jinja()
    ctx.rule = ("(i) all skeletons / programs x delimiter sets x settings; (ii) all well-nested line programs x final "
                "newline; (iii) option grid x sources; (iv) all overlay chains; (v) all histories ending in a render. "
                "non-trivial = the case got past trivial rejection (skeleton whose rendering removes whitespace, program "
                "that renders, chain, history); distinct = distinct (labels, setting, removed-span kinds) / rendered text / "
                "(final options, chain length) / (operation kinds, observed configuration, outcome kind)")
    ctx.assumptions += [
        "equality of outputs is the oracle for (i)-(iv); for (v) the reference is the same configuration rendered alone "
        "right after jinja2.clear_caches() in the same worker process",
        "gen_stmt programs are translated to other delimiter sets from their printed default form; programs whose "
        "literal text would form a delimiter of the target set are skipped for that set and counted",
        "error outcomes are compared by exception class (i, ii) or class+message (iii-v)",
        "state counting in (v) reads jinja2.lexer._lexer_cache and get_spontaneous_environment.cache_info (not used by the oracle)",
    ]
    q = ctx.quick
    shards = []
    for i, (name, ntags, slots, tagset) in enumerate(skel_phases(q)):
        n = max(1, min(128, len(tagset) ** ntags))
        shards += [("skel", q, i, k, n) for k in range(n)]
    K = 32
    shards += [("stmt", "mid" if q else "full", 2, k, K) for k in range(K)]
    Lmax = 4 if q else 5
    shards += [("line", (), [1])]
    shards += [("line", (x, y), list(range(2, Lmax + 1))) for x in LINE_ALPHABET for y in LINE_ALPHABET]
    shards += [("tmpl", k, 48) for k in range(48)]
    if q:
        bases = [(0,) * 7, (1,) * 7] + [tuple(int(i == j) for i in range(7)) for j in range(7)]
    else:
        bases = list(itertools.product((0, 1), repeat=7))
    shards += [("overlay", b, 3, not q) for b in bases]
    n5 = len(CONFIGS5)
    pairs = [(a, b) for a in range(n5) for b in range(a, n5)]
    hmax = 4 if q else 5
    shards += [("hist", a, b, hmax) for a, b in pairs]
    shards += [("evict",)]
    ctx.pmap(shard, shards)
    ctx.viol.sort(key=lambda v: (v[0], len(v[1].get("msg", "")), v[1].get("msg", "")))  # smallest case first per signature
    ctx.cov["bounds"] = {
        "i_skeleton_phases": {name: {"tags": nt, "chunk_alphabet_sizes": [len(s) for s in sl], "tag_variants": len(ts)}
                              for name, nt, sl, ts in skel_phases(q)},
        "i_delimiter_sets": list(SETS),
        "i_statement_programs": {"source": "vf.gen_stmt" if G is not None else "fallback family",
                                 "profile": "mid" if q else "full", "max_nodes": 2},
        "ii_max_lines": Lmax, "ii_multi_line_statements": 2, "ii_line_alphabet": len(LINE_ALPHABET),
        "iii_option_points": 288, "iv_bases": len(bases), "iv_max_chain": 3,
        "v_configs": n5, "v_config_pairs": len(pairs), "v_max_history": hmax, "v_eviction_configs": EV_N,
    }
    ctx.cov["states"] = ctx.counters.get("v/states", 0)
    ctx.cov["transitions"] = ctx.counters.get("v/transitions", 0)
    ctx.cov["traces_validated_against_impl"] = ctx.counters.get("v/histories", 0)
    ctx.cov["shards_completed"] = len(shards)
