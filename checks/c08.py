"""C08 — compile-time constant folding never changes what a template renders."""
from __future__ import annotations

import itertools
import os
import warnings

from markupsafe import Markup

from vf import core
from vf import gen_expr as G

META = {
    "level": "exploration",
    "engine": "E1",
    "technique": "bounded-exhaustive enumeration of constant-only expression trees x placements x escaping contexts; metamorphic "
    "oracle: optimized=False and every constant-lifting of the same template must render identically",
    "text": "Constant-only expressions (literals, arithmetic, ~, comparisons, and/or/not, conditional expressions, filters and "
    "tests on constants, safe-marked constants, attribute/item/slice access on literal containers) are enumerated exhaustively "
    "at depth 0/1 over the atom menu and as all operator shapes of depth 2 (thorough: + depth 3 on a sub-menu) filled from "
    "fixed leaf vectors; a menu of constant expressions whose results are container subclasses or rich objects (groupby "
    "groups, items/dictsort pairs, range, cycler, joiner, namespace, batch/slice/map/select generators, Markup-returning "
    "filters) is combined with one and two consumers (.grouper .list [0] .0 |first |list |length tests ~ + ...) and a "
    "for-loop placement; each is placed as output, filter argument, set value and if test, inside no autoescape block / "
    "autoescape true / false / a runtime flag with both values, under Environment(autoescape=False/True). Every base "
    "template is rendered together with its variants: optimized=False, each single literal (and each safe-marked literal, as "
    "Markup) lifted to a context variable holding the same value, all of them lifted, and the static autoescape argument "
    "lifted to a runtime flag. All variants must render the same text or raise the same exception class. Mixed family: a "
    "menu of constant expressions that the optimizer folds (negative ints/floats produced by unary minus, arithmetic, "
    "filters, conditional expressions and item access; -0.0, exponent-spelled floats, inf/-inf/nan, bool, none, str, Markup, "
    "tuple/list/dict) is put in every operand/argument position next to RUNTIME operands x, y (both sides of every binary "
    "operator, nested and unary-wrapped powers, comparisons, and/or/not, conditional expressions, filter and test arguments, "
    "container items, subscripts and slice bounds) for several (x, y) value vectors, with the same variants; the menu is "
    "checked against the real optimizer to fold.",
    "note": "Metamorphic: no reference evaluator; a defect shared by folded and runtime evaluation is invisible here (C02 covers "
    "that). Depth-2 shapes are filled from leaf vectors and see one (placement, context) each in rotation (quick); `sameas` "
    "is excluded (constant identity is a CPython accident).",
    "design_ref": "DESIGN.md §4 C08",
}


def SAFE(s):
    return G.Filter(G.Str(s), "safe")


ATOMS_FULL = [G.Int(1), G.Int(2), G.Int(0), G.Float(1.5), G.Str("a"), G.Str("<a>"), G.TRUE, G.NONE,
              G.List(G.Int(1), G.Str("<b>")), SAFE("<s>"),
              G.Str(""), G.FALSE, G.Dict((G.Str("k"), G.Str("<c>"))), G.Tuple(G.Str("<d>"), G.Int(2)), G.Str("a,<e>"), G.Int(3)]
ATOMS_QUICK = ATOMS_FULL[:10]
ATOMS_QUICK2 = [G.Int(1), G.Int(2), G.Str("<a>"), SAFE("<s>"), G.NONE, G.List(G.Int(1), G.Str("<b>"))]
ATOMS_3 = [G.Int(2), G.Str("<a>"), SAFE("<s>"), G.NONE, G.List(G.Int(1), G.Str("<b>"))]


def _forms():
    F = []

    def add(name, arity, build, klass):
        F.append(G.Form(name, arity, build, klass))

    for op in ("+", "-", "*", "/", "//", "%", "**", "~"):
        F.append(G.FORM_BY_NAME["bin:" + op])
    for n in ("cmp:==", "cmp:!=", "cmp:<", "cmp:in", "chain:<:<=", "and", "or", "not", "un:-", "un:+", "cond", "cond-"):
        F.append(G.FORM_BY_NAME[n])
    for nm in ("upper", "safe", "escape", "e", "join", "default", "length", "first", "abs", "int", "string", "trim"):
        add("f:" + nm, 1, (lambda nm: lambda a: G.Filter(a, nm))(nm), "filter")
    add("f:join(<j>)", 1, lambda a: G.Filter(a, "join", (G.Str("<j>"),)), "filter")
    add("f:replace", 1, lambda a: G.Filter(a, "replace", (G.Str("a"), G.Str("<z>"))), "filter")
    add("f:default(<d>)", 1, lambda a: G.Filter(a, "default", (G.Str("<d>"),)), "filter")
    add("f:default(<d>,true)", 1, lambda a: G.Filter(a, "default", (G.Str("<d>"), G.TRUE)), "filter")
    add("f:join(e)", 2, lambda a, b: G.Filter(a, "join", (b,)), "filter")
    add("f:default(e)", 2, lambda a, b: G.Filter(a, "default", (b,)), "filter")
    add("f:replace(e,e)", 3, lambda a, b, c: G.Filter(a, "replace", (b, c)), "filter")
    for nm in ("defined", "none", "odd", "string", "sequence"):
        add("t:" + nm, 1, (lambda nm: lambda a: G.Test(a, nm))(nm), "test")
    add("t:none!", 1, lambda a: G.Test(a, "none", (), True), "test")
    add("t:divisibleby 2", 1, lambda a: G.Test(a, "divisibleby", (G.Int(2),), False, True), "test")
    add("t:in bare", 2, lambda a, b: G.Test(a, "in", (b,), False, True), "test")
    add("t:eq paren", 2, lambda a, b: G.Test(a, "eq", (b,), False, False), "test")
    for n in ("attr:k", "item:k", "item:0", "item:e", "iitem:0", "iitem:1", "slice:-:2:-", "slice:1:-:-", "slice:rev",
              "list2", "dictv", "tuple2"):
        F.append(G.FORM_BY_NAME[n])
    return F


FORMS = _forms()
FORMS_SUB = [f for f in FORMS if f.name in (
    "bin:+", "bin:**", "bin:~", "cmp:==", "and", "un:-", "cond", "f:upper", "f:safe", "f:escape", "f:join", "f:replace",
    "f:default(<d>)", "t:defined", "item:0", "slice:-:2:-", "list2")]

FORMS_D3 = [f for f in FORMS if f.name in ("bin:+", "bin:**", "bin:~", "un:-", "cond-", "f:safe")]

LEAF_VECTORS = [
    [G.Str("<a>"), G.Int(2), SAFE("<s>"), G.Int(1), G.Str("a"), G.List(G.Int(1), G.Str("<b>"))],
    [G.Int(2), G.Int(2), G.Int(1), G.Int(3), G.Int(0)],
    [G.List(G.Int(1), G.Str("<b>")), G.Str("<a>"), G.Dict((G.Str("k"), G.Str("<c>"))), G.Int(0), SAFE("<s>"), G.NONE],
]

PLACEMENTS = ("output", "filterarg", "set", "iftest")
WRAPPERS = ("none", "true", "false", "flagT", "flagF")
CONTEXTS = [(pl, a, w) for pl in PLACEMENTS for a in (False, True) for w in WRAPPERS]


def place(placement, src):
    if placement == "output":
        return "[{{ " + src + " }}]"
    if placement == "filterarg":
        return "[{{ u|default(" + src + ") }}]"
    if placement == "set":
        return "{% set v = " + src + " %}[{{ v }}]"
    if placement == "iftest":
        return "{% if " + src + " %}T{% else %}F{% endif %}"
    if placement == "forloop":
        return ("{% for g in " + src + " %}[{{ g }}|{{ g.grouper }}|{{ g.list|length }}|{{ g.0 }}|{{ g is mapping }}]"
                "{% else %}none{% endfor %}")
    raise AssertionError(placement)


def wrap(wrapper, body):
    if wrapper == "none":
        return body
    arg = {"true": "true", "false": "false", "flagT": "flag", "flagF": "flag"}[wrapper]
    return "{% autoescape " + arg + " %}" + body + "{% endautoescape %}"


def lift_points(ast):
    """[(path, value)]: every literal leaf, and every safe-marked literal as a
    whole (holding Markup)."""
    pts = []
    for path, n in G.walk(ast):
        if n[0] in ("int", "float", "str", "true", "false", "none"):
            pts.append((path, G.literal_value(n)))
        elif n[0] == "filter" and n[2] == "safe" and n[1][0] == "str" and not n[3] and not n[4]:
            pts.append((path, Markup(n[1][1])))
    return pts


def variants(ast, placement, auto, wrapper, extra=None):
    """[(kind, label, env kwargs, template source, data)]; the first is the base.  `extra`: values of the runtime names
    the expression uses (the mixed family); they are the same in every variant."""
    base_data = dict(extra or {})
    if wrapper.startswith("flag"):
        base_data["flag"] = wrapper == "flagT"
    src = G.to_src(ast)
    out = [("base", "base", {}, wrap(wrapper, place(placement, src)), base_data),
           ("noopt", "optimized=False", {"optimized": False}, wrap(wrapper, place(placement, src)), base_data)]
    pts = lift_points(ast)
    for i, (path, val) in enumerate(pts):
        lifted = G.replace_at(ast, path, G.Name("v%d" % i))
        d = dict(base_data)
        d["v%d" % i] = val
        out.append(("lift-one", "leaf %d lifted" % i, {}, wrap(wrapper, place(placement, G.to_src(lifted))), d))
    if len(pts) > 1:
        lifted = ast
        d = dict(base_data)
        # lift outermost first so that a safe-marked literal is replaced as a whole
        done = []
        for i, (path, val) in enumerate(pts):
            if any(path[:len(q)] == q for q in done):
                continue
            lifted = G.replace_at(lifted, path, G.Name("v%d" % i))
            d["v%d" % i] = val
            done.append(path)
        out.append(("lift-all", "all leaves lifted", {}, wrap(wrapper, place(placement, G.to_src(lifted))), d))
    if wrapper in ("true", "false"):
        d = dict(base_data)
        d["flag"] = wrapper == "true"
        out.append(("lift-flag", "autoescape argument lifted", {}, wrap("flagT", place(placement, src)), d))
    return out


def render(auto, env_kw, tsrc, data):
    import jinja2

    def once():
        env = jinja2.Environment(autoescape=auto, **env_kw)
        return env.from_string(tsrc).render(**data)

    try:
        try:
            with core.alarm(15):
                return ("ok", G.norm_text(once()))
        except core.CaseTimeout:  # a stalled machine is not a finding: one retry with a long limit
            with core.alarm(180):
                return ("ok", G.norm_text(once()))
    except core.CaseTimeout:
        return ("exc", "CaseTimeout")
    except Exception as e:  # noqa: BLE001
        return ("exc", type(e).__name__)


def judge(ast, ctx, p=None, extra=None):
    """-> [] or [(variant kind, label, base outcome, variant outcome, base tsrc, variant tsrc, variant data)]"""
    placement, auto, wrapper = ctx
    vs = variants(ast, placement, auto, wrapper, extra)
    outs = [render(auto, kw, tsrc, data) for (_, _, kw, tsrc, data) in vs]
    if p is not None:
        p.evals += len(vs)
        p.count("base_templates")
        p.sig((placement, wrapper, auto, G.norm_text(repr(outs[0]))))
    bad = []
    for v, o in zip(vs[1:], outs[1:]):
        if o != outs[0]:
            bad.append((v[0], v[1], outs[0], o, vs[0][3], v[3], v[4]))
    return bad


def root_class(ast):
    k = ast[0]
    if k == "bin":
        return "bin" + ast[1]
    if k == "filter":
        return "filter:" + ast[2]
    if k == "test":
        return "test:" + ast[2]
    if k in ("int", "float", "str", "true", "false", "none"):
        return "literal"
    return k


def effective(auto, wrapper):
    vol = "volatile" if wrapper.startswith("flag") else "static"
    on = {"none": auto, "true": True, "false": False, "flagT": True, "flagF": False}[wrapper]
    return vol + "/" + ("on" if on else "off")


def script_for(auto, base_tsrc, base_data, var_tsrc, var_data, var_kw):
    return (
        "import jinja2\nfrom markupsafe import Markup\n"
        f"base = jinja2.Environment(autoescape={auto!r}).from_string({base_tsrc!r})\n"
        f"print('base   ', {base_tsrc!r}, {base_data!r}, '->', repr(base.render(**{base_data!r})))\n"
        f"var = jinja2.Environment(autoescape={auto!r}, **{var_kw!r}).from_string({var_tsrc!r})\n"
        f"print('variant', {var_tsrc!r}, {var_data!r}, '->', repr(var.render(**{var_data!r})))\n"
    )


def check(p, ast, ctx, extra=None):
    bad = judge(ast, ctx, p, extra)
    if not bad:
        return False
    placement, auto, wrapper = ctx
    # smallest sub-expression that still shows a difference in the same escaping context (in any placement)
    small, sctx = ast, ctx
    while True:
        found = False
        for _, child in G.subnodes(small):
            for pl in (sctx[0],) + tuple(x for x in PLACEMENTS if x != sctx[0]):
                cb = judge(child, (pl, auto, wrapper), None, extra)
                if cb:
                    small, sctx, bad, found = child, (pl, auto, wrapper), cb, True
                    break
            if found:
                break
        if not found:
            break
    kinds = sorted({b[0] for b in bad})
    cls = "flag" if kinds == ["lift-flag"] else "fold"
    kind, label, bo, vo, btsrc, vtsrc, vdata = bad[0]
    base_data = dict(extra or {})
    if wrapper.startswith("flag"):
        base_data["flag"] = wrapper == "flagT"
    shown = {k: (("Markup(%r)" % str(v)) if isinstance(v, Markup) else v) for k, v in vdata.items()}
    p.violation(f"C08/{root_class(small)}/{effective(auto, wrapper)}/{cls}", {
        "msg": f"Environment(autoescape={auto}) {btsrc!r} {base_data!r} -> {bo!r} but {label}: {vtsrc!r} {shown!r} -> {vo!r}"
               f"  (differing variants: {'+'.join(kinds)}; found in {G.to_src(ast)!r} as {placement})",
        "autoescape": auto, "base": btsrc, "variant": vtsrc, "variant_kinds": kinds,
        "script": script_for(auto, btsrc, base_data, vtsrc, vdata, {"optimized": False} if kind == "noopt" else {})})
    return True


# ---- results that are container subclasses / rich objects on constant input, used through their own API

def _rich():
    I, S, L, D, F, C, N = G.Int, G.Str, G.List, G.Dict, G.Filter, G.Call, G.Name
    rows = L(D((S("k"), I(1)), (S("v"), I(2))), D((S("k"), I(1)), (S("v"), I(3))), D((S("k"), I(2)), (S("v"), S("<v>"))))
    gb = F(rows, "groupby", (S("k"),))
    nums = L(I(3), I(1), I(2), I(1))
    dct = D((S("b"), I(1)), (S("a"), S("<a>")))
    prods = [
        gb, F(gb, "first"), F(gb, "last"), F(gb, "list"), F(rows, "groupby", (), (("attribute", S("k")), ("default", I(0)))),
        F(dct, "items"), F(C(N("dict"), (), (("a", I(1)),)), "items"), F(dct, "dictsort"), F(dct, "list"),
        C(N("range"), (I(3),)), C(N("range"), (I(1), I(7), I(2))),
        C(G.Attr(C(N("cycler"), (S("a"), S("<b>"))), "next")), G.Attr(C(N("cycler"), (S("a"), S("<b>"))), "current"),
        C(N("joiner")), C(C(N("joiner"), (S("<j>"),))),
        G.Attr(C(N("namespace"), (), (("a", I(1)),)), "a"), C(N("namespace"), (), (("grouper", S("<g>")),)),
        F(nums, "batch", (I(2),)), F(nums, "batch", (I(3), S("<f>"))), F(nums, "slice", (I(2),)), F(nums, "sort"),
        F(nums, "unique"), F(nums, "reverse"), F(nums, "select", (S("odd"),)), F(rows, "map", (), (("attribute", S("v")),)),
        F(rows, "selectattr", (S("k"), S("eq"), I(1))), F(nums, "max"), F(nums, "sum"),
        F(S("a <b>"), "list"), F(S("a <b>"), "wordcount"), F(S("a <b>"), "title"), F(S("a <b>"), "center", (I(9),)),
        F(S("a <b>"), "urlize"), F(S("a <b>"), "striptags"), F(dct, "tojson"), F(dct, "xmlattr"), F(dct, "pprint"),
        F(S("%s-%s"), "format", (S("<x>"), I(1))), F(S("a <b>"), "truncate", (I(4),)), F(S("a <b>"), "indent"),
        F(S("a <b>"), "forceescape"), F(S("a,<b>"), "replace", (S(","), SAFE("<s>"))),
    ]
    # attribute syntax on constant containers whose keys collide with attribute names
    cd = D((S("items"), I(5)), (S("keys"), S("<k>")))
    dv = D((S("values"), I(3)), (S("get"), I(7)))
    prods += [G.Attr(cd, "items"), C(G.Attr(cd, "items")), G.Attr(cd, "keys"), C(G.Attr(cd, "keys")), C(G.Attr(dv, "values")),
              C(G.Attr(dv, "get"), (S("get"),)), G.Item(cd, S("items")), F(cd, "attr", (S("items"),)),
              C(G.Attr(L(I(1), S("<b>")), "index"), (S("<b>"),))]
    # containers holding inf / nan produced by constant arithmetic (their repr spells `inf`/`nan` as bare names)
    big = G.Bin("*", G.Float(1e308), I(10))
    prods += [F(L(big), "list"), F(L(I(1), G.Bin("-", big, big)), "list"), F(D((S("a"), big)), "dictsort"),
              F(G.Tuple(big, I(1)), "first")]
    cons = [
        ("id", lambda e: e), (".grouper", lambda e: G.Attr(e, "grouper")), (".list", lambda e: G.Attr(e, "list")),
        ("[0]", lambda e: G.Item(e, I(0))), ("[1]", lambda e: G.Item(e, I(1))), (".0", lambda e: G.IItem(e, 0)),
        ("[k]", lambda e: G.Item(e, S("k"))), ("|first", lambda e: F(e, "first")), ("|last", lambda e: F(e, "last")),
        ("|list", lambda e: F(e, "list")), ("|length", lambda e: F(e, "length")), ("|string", lambda e: F(e, "string")),
        ("|join", lambda e: F(e, "join", (S("<,>"),))), ("is mapping", lambda e: G.Test(e, "mapping")),
        ("is string", lambda e: G.Test(e, "string")), ("is iterable", lambda e: G.Test(e, "iterable")),
        ("is callable", lambda e: G.Test(e, "callable")),
        ("[:1]", lambda e: G.Slice(e, None, I(1), None)), ("|safe", lambda e: F(e, "safe")),
        ("~", lambda e: G.Bin("~", e, S("<t>"))), ("+", lambda e: G.Bin("+", e, e)),
    ]
    return prods, cons


RICH_PRODUCERS, RICH_CONSUMERS = _rich()
RICH_CONTEXTS = CONTEXTS + [("forloop", a, w) for a in (False, True) for w in WRAPPERS]


def _opaque(ast):
    """value prints with its memory address (plain objects, generators, iterators): never stringify it inside the template."""
    if ast[0] == "call" and ast[1] == G.Name("joiner"):
        return True
    if ast[0] == "attr" or (ast[0] == "filter" and ast[2] == "attr"):
        return True  # may be a bound method
    return ast[0] == "filter" and ast[2] in ("items", "batch", "slice", "unique", "reverse", "select", "map", "selectattr")


STRINGIFYING = ("|string", "~", "|safe")


def rich_shard(arg):
    """producer and consumer(producer) in every context (quick: 5 contexts in rotation, stride 11 so that placement and
    wrapper both vary); consumer(consumer(producer)) in 5 rotating contexts (quick: every 4th pair, 1 context)."""
    quick, pi = arg
    warnings.filterwarnings("ignore", category=SyntaxWarning)
    p = core.Part()
    prod = RICH_PRODUCERS[pi]
    nctx = len(RICH_CONTEXTS)
    n = 0
    for ci, (cname, c1) in enumerate(RICH_CONSUMERS):
        if _opaque(prod) and cname in STRINGIFYING:
            continue
        ast = c1(prod)
        ctxs = RICH_CONTEXTS if not quick else [RICH_CONTEXTS[(pi * 3 + ci * 7 + j * 11) % nctx] for j in range(5)]
        for ctx in ctxs:
            check(p, ast, ctx)
        p.count("rich_expressions")
        p.sample({"expr": G.to_src(ast), "contexts": len(ctxs)}, cap=1)
        if cname == "id":
            continue
        for cj, (c2name, c2) in enumerate(RICH_CONSUMERS[1:]):
            n += 1
            if quick and (n + pi) % 4:
                continue
            if c2name in STRINGIFYING and (_opaque(prod) or _opaque(ast)):
                continue
            ast2 = c2(ast)
            for j in range(1 if quick else 5):
                check(p, ast2, RICH_CONTEXTS[(pi * 3 + n * 7 + j * 11) % nctx])
            p.count("rich_expressions")
    return p


# ---- mixed family: a constant sub-expression that folds, used next to a RUNTIME operand.  The folded value is written
# into the generated module as a literal and has to stay one operand there (sign, exponent spelling, inf/nan, Markup,
# containers), whatever operator or argument position it sits in.

def _mixed():
    I, S, L, D, F, FL, U, B = G.Int, G.Str, G.List, G.Dict, G.Filter, G.Float, G.Un, G.Bin
    big = B("*", FL(1e308), I(10))
    consts = [
        # negative numbers, produced in every way the folder has
        U("-", I(2)), U("-", FL(2.5)), U("-", FL(0.5)), B("-", I(1), FL(1.5)), B("*", FL(0.5), U("-", I(4))),
        B("/", U("-", I(7)), I(2)), B("-", I(1), I(4)), F(S("-1.5"), "float"), F(S("-3"), "int"),
        G.Cond(G.TRUE, U("-", FL(1.5)), I(1)), G.Item(L(U("-", FL(1.5)), I(1)), I(0)), F(L(I(3), U("-", FL(1.5))), "min"),
        U("-", FL(0.0)), U("-", B("**", I(2), I(70))),
        # non-negative numbers and numbers whose repr is not a plain decimal
        I(2), I(0), FL(2.5), F(U("-", FL(2.5)), "abs"), FL(1e22), U("-", FL(1e22)), FL(1e-07), big, U("-", big), B("-", big, big),
        # the other constant types
        G.TRUE, G.NONE, S("<a>"), S("2"), SAFE("<s>"), B("~", S("a"), I(1)),
        G.Tuple(U("-", FL(1.5)), I(2)), L(U("-", I(1)), S("<b>")), D((S("k"), U("-", FL(1.5)))),
    ]
    X, Y = G.Name("x"), G.Name("y")
    pos = []
    for op in ("+", "-", "*", "/", "//", "%", "**", "~"):
        pos.append(("K%sx" % op, (lambda op: lambda k: B(op, k, X))(op)))
        pos.append(("x%sK" % op, (lambda op: lambda k: B(op, X, k))(op)))
    pos += [
        ("(-K)**x", lambda k: B("**", U("-", k), X)), ("(+K)**x", lambda k: B("**", U("+", k), X)),
        ("-(K**x)", lambda k: U("-", B("**", k, X))), ("K**x**y", lambda k: B("**", B("**", k, X), Y)),
        ("x**(K**y)", lambda k: B("**", X, B("**", k, Y))), ("y*K**x", lambda k: B("*", Y, B("**", k, X))),
        ("K**x*y", lambda k: B("*", B("**", k, X), Y)), ("K**(x|int)", lambda k: B("**", k, F(X, "int"))),
        ("K**x|string", lambda k: B("**", k, F(X, "string"))), ("(K**x)|abs", lambda k: F(B("**", k, X), "abs")),
        ("K*x+K", lambda k: B("+", B("*", k, X), k)), ("x-K-K", lambda k: B("-", B("-", X, k), k)),
        ("K==x", lambda k: G.Cmp(k, ("==", X))), ("K<x", lambda k: G.Cmp(k, ("<", X))), ("x<K", lambda k: G.Cmp(X, ("<", k))),
        ("x in K", lambda k: G.Cmp(X, ("in", k))), ("K in x", lambda k: G.Cmp(k, ("in", X))),
        ("y<K<=x", lambda k: G.Cmp(Y, ("<", k), ("<=", X))), ("K**x<y", lambda k: G.Cmp(B("**", k, X), ("<", Y))),
        ("K and x", lambda k: G.And(k, X)), ("x and K", lambda k: G.And(X, k)), ("K or x", lambda k: G.Or(k, X)),
        ("not K**x", lambda k: G.Not(B("**", k, X))),
        ("K if x else y", lambda k: G.Cond(X, k, Y)), ("x if K else y", lambda k: G.Cond(k, X, Y)), ("K if x", lambda k: G.Cond(X, k)),
        ("K**x if y else K", lambda k: G.Cond(Y, B("**", k, X), k)),
        ("K|default(x)", lambda k: F(k, "default", (X,))), ("u|default(K**x)", lambda k: F(G.Name("u"), "default", (B("**", k, X),))),
        ("x|default(K)", lambda k: F(X, "default", (k,))), ("K|round(x)", lambda k: F(k, "round", (X,))),
        ("[K,x]", lambda k: L(k, X)), ("(K**x,K)", lambda k: G.Tuple(B("**", k, X), k)), ("{k:K,j:x}", lambda k: D((S("k"), k), (S("j"), X))),
        ("[K,x]|sum", lambda k: F(L(k, X), "sum")), ("[K**x]|first", lambda k: F(L(B("**", k, X)), "first")),
        ("K[x]", lambda k: G.Item(k, X)), ("x[K]", lambda k: G.Item(X, k)), ("z[K:]", lambda k: G.Slice(G.Name("z"), k, None, None)),
        ("z[::K]", lambda k: G.Slice(G.Name("z"), None, None, k)), ("z[K**x]", lambda k: G.Item(G.Name("z"), B("**", k, X))),
        ("K is divisibleby x", lambda k: G.Test(k, "divisibleby", (X,))), ("x is divisibleby K", lambda k: G.Test(X, "divisibleby", (k,))),
        ("x is eq K", lambda k: G.Test(X, "eq", (k,))), ("K**x is number", lambda k: G.Test(B("**", k, X), "number")),
    ]
    return consts, pos


MIXED_CONSTS, MIXED_POSITIONS = _mixed()
# runtime values of (x, y); z is a fixed runtime list, u is undefined.  Even, fractional, negative and non-numeric x.
MIXED_DATA = [(2, 3), (0.5, 2), (-3, 0), ("<x>", 1), (3, 0.5), (0, -1)]
MIXED_Z = [0, "<z>", 2, 3, 4]


def const_class(ast):
    """What the real optimizer makes of the constant expression alone: 'folded:<type><sign>' or 'not-folded'."""
    import jinja2
    from jinja2 import nodes
    from jinja2.optimizer import optimize

    env = jinja2.Environment()
    try:
        out = optimize(env.parse("{{ " + G.to_src(ast) + " }}"), env).body[0].nodes[0]
    except Exception as e:  # noqa: BLE001
        return "error:" + type(e).__name__
    if not isinstance(out, nodes.Const):
        return "not-folded"
    v = out.value
    t = type(v).__name__
    if isinstance(v, (int, float)) and not isinstance(v, bool):
        if v != v:
            return "folded:" + t + ":nan"
        if v in (float("inf"), float("-inf")):
            t += ":inf"
        return "folded:" + t + ("-" if str(v).startswith("-") else "+")
    return "folded:" + t


def mixed_shard(arg):
    """every constant x every position x every (x, y) vector (quick: 3 vectors), each in `nctx` contexts taken in rotation
    (stride 11: placement and wrapper both vary); thorough: every context for the first data vector."""
    quick, ki = arg
    warnings.filterwarnings("ignore", category=SyntaxWarning)
    p = core.Part()
    k = MIXED_CONSTS[ki]
    kc = const_class(k)
    p.count("mixed_const_" + kc)
    data = MIXED_DATA[:3] if quick else MIXED_DATA
    n = 0
    for pi, (pname, build) in enumerate(MIXED_POSITIONS):
        ast = build(k)
        for di, (x, y) in enumerate(data):
            extra = {"x": x, "y": y, "z": list(MIXED_Z)}
            if quick:
                ctxs = [CONTEXTS[(ki * 3 + pi * 7 + di * 11) % len(CONTEXTS)]]
            elif di == 0:
                ctxs = CONTEXTS
            else:
                ctxs = [CONTEXTS[(ki * 3 + pi * 7 + di * 11 + j * 13) % len(CONTEXTS)] for j in range(3)]
            for ctx in ctxs:
                check(p, ast, ctx, extra)
                n += 1
        p.count("mixed_expressions")
        if kc.startswith("folded:"):
            p.count("mixed_folded_operand_expressions")
            if kc.endswith("-") and "**" in pname:
                p.count("mixed_negative_const_in_power")
        p.sample({"expr": G.to_src(ast), "const": kc, "data": [list(d) for d in data]}, cap=1)
    p.count("mixed_cases", n)
    return p


def prep(ast):
    n = G.count_pows(ast)
    if n > 2:
        return None
    if n:
        ast = G.clamp_for_pow(ast, 3)
    return ast


def depth01_shard(arg):
    quick, form_idx = arg
    warnings.filterwarnings("ignore", category=SyntaxWarning)
    p = core.Part()
    atoms = ATOMS_QUICK if quick else ATOMS_FULL
    if form_idx < 0:
        for a in ATOMS_FULL:
            for ctx in CONTEXTS:
                check(p, a, ctx)
            p.sample({"expr": G.to_src(a), "contexts": len(CONTEXTS)}, cap=2)
        return p
    f = FORMS[form_idx]
    if f.arity == 2 and quick:
        atoms = ATOMS_QUICK2
    if f.arity == 3:
        atoms = ATOMS_3[:3] if quick else ATOMS_3
    for tup in itertools.product(atoms, repeat=f.arity):
        ast = prep(f.build(*tup))
        if ast is None:
            continue
        for ctx in CONTEXTS:
            check(p, ast, ctx)
        p.count("depth1_expressions")
        p.sample({"expr": G.to_src(ast), "form": f.name, "contexts": len(CONTEXTS)}, cap=1)
    return p


SPACES = {}


def space(name):
    if name not in SPACES:
        SPACES[name] = {"d2": lambda: G.ShapeSpace([FORMS, FORMS], 2),
                        "d2-sub": lambda: G.ShapeSpace([FORMS, FORMS_SUB], 2),
                        "d3": lambda: G.ShapeSpace([FORMS_D3, FORMS_D3, FORMS_D3])}[name]()
    return SPACES[name]


def shape_shard(arg):
    sname, lo, hi, nvec, nctx = arg
    warnings.filterwarnings("ignore", category=SyntaxWarning)
    p = core.Part()
    sp = space(sname)
    for i in range(lo, hi):
        shape = sp.unrank(i)
        if G.shape_pows(shape) > 2:
            p.count("excluded_more_than_two_pow")
            continue
        for k in range(nvec):
            vi = (i + k) % len(LEAF_VECTORS)
            ast = prep(G.fill(shape, LEAF_VECTORS[vi]))
            for j in range(nctx):
                # contexts in rotation; the stride 7 is coprime to 40 so consecutive shapes see different placements/modes
                ctx = CONTEXTS[(i * 7 + k * 13 + j * (len(CONTEXTS) // nctx)) % len(CONTEXTS)]
                check(p, ast, ctx)
            p.sample({"expr": G.to_src(ast), "shape": G.shape_name(shape)}, cap=1)
        p.count("shapes_" + sname)
    return p


def ranges(n, size):
    return [(a, min(n, a + size)) for a in range(0, n, size)]


def run(ctx: core.Ctx):
    core.import_all_jinja()
    quick = ctx.quick
    ctx.rule = ("case = (constant expression, placement, Environment autoescape, autoescape wrapper) rendered as base, "
                "optimized=False, each leaf lifted, all leaves lifted, autoescape argument lifted; evaluations counts renders; "
                "non-trivial = every base template; distinct = distinct (placement, wrapper, autoescape, base outcome)")
    ctx.assumptions += ["lifting replaces a literal by a context variable holding the equal Python value (Markup for "
                        "`\"..\"|safe`); containers are lifted leaf-wise", "exceptions compared by class name",
                        "`sameas` not generated", "object addresses in rendered text are normalised",
                        "mixed family: runtime names x, y, z keep the same value in every variant; u is undefined"]
    d1 = [(quick, i) for i in range(-1, len(FORMS))]
    if os.environ.get("VERIF_SMOKE"):
        d1 = d1[::int(os.environ["VERIF_SMOKE"])]
    ctx.pmap(depth01_shard, d1)
    rich = [(quick, i) for i in range(len(RICH_PRODUCERS))]
    if os.environ.get("VERIF_SMOKE"):
        rich = rich[::max(1, int(os.environ["VERIF_SMOKE"]) // 10)]
    ctx.pmap(rich_shard, rich)
    ctx.pmap(mixed_shard, [(quick, i) for i in range(len(MIXED_CONSTS))])
    c = ctx.counters
    for key in ("mixed_folded_operand_expressions", "mixed_negative_const_in_power", "mixed_const_folded:float-",
                "mixed_const_folded:int-", "mixed_const_folded:float:inf-", "mixed_const_folded:float:nan", "mixed_const_folded:Markup",
                "mixed_const_folded:tuple"):
        if not c.get(key):
            raise core.HarnessError(f"mixed family is vacuous: counter {key!r} is 0 (the optimizer did not fold the constant operand)")
    if c.get("mixed_const_not-folded") or any(k.startswith("mixed_const_error") for k in c):
        raise core.HarnessError("mixed family: a menu entry is not folded by the optimizer: %r" % {
            k: v for k, v in c.items() if k.startswith("mixed_const_")})
    ctx.cov["mixed"] = {"constants": len(MIXED_CONSTS), "positions": len(MIXED_POSITIONS),
                        "data_vectors": 3 if quick else len(MIXED_DATA), "cases": c.get("mixed_cases", 0),
                        "const_classes": {k[len("mixed_const_"):]: v for k, v in sorted(c.items()) if k.startswith("mixed_const_")},
                        "negative_const_in_power": c.get("mixed_negative_const_in_power", 0)}
    plan = [("d2-sub", space("d2-sub").count(), 3, 1, 200)] if quick else [
        ("d2", space("d2").count(), 2, 2, 300), ("d3", space("d3").count(), 1, 1, 2000)]
    shards = []
    for sname, cnt, nvec, nctx, chunk in plan:
        shards += [(sname, a, b, nvec, nctx) for a, b in ranges(cnt, chunk)]
    if os.environ.get("VERIF_SMOKE"):
        shards = shards[::int(os.environ["VERIF_SMOKE"])]
        ctx.cap_hit("VERIF_SMOKE: only every n-th shape shard was run")
    ctx.pmap(shape_shard, shards)
    ctx.cov["bounds"] = {"forms": len(FORMS), "atoms_arity1": len(ATOMS_QUICK if quick else ATOMS_FULL),
                         "atoms_arity2": len(ATOMS_QUICK2 if quick else ATOMS_FULL), "atoms_arity3": 3 if quick else len(ATOMS_3), "contexts": len(CONTEXTS), "rich_producers": len(RICH_PRODUCERS), "rich_consumers": len(RICH_CONSUMERS),
                         "rich_contexts": len(RICH_CONTEXTS),
                         "shape_spaces": {s: {"shapes": c, "leaf_vectors_per_shape": v, "contexts_per_shape": x}
                                          for s, c, v, x, _ in plan}}
