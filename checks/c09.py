"""C09 — async mode renders exactly what sync mode renders."""
from __future__ import annotations

import asyncio

from vf import core, corpus, e4

META = {
    "level": "exploration",
    "engine": "E1+E4",
    "technique": "bounded-exhaustive enumeration of the shared program corpus and of a data-variant family (callables as "
    "coroutine functions, iterables as async generators), each rendered through every sync and async entry point of every "
    "environment class and compared",
    "text": "(A) Every statement program x data assignment, inheritance chain and include/import scenario of the corpus is "
    "rendered in a sync environment and in its async-enabled twin through render (asyncio.run inside jinja), "
    "render_async, generate and generate_async, for Environment (full quick corpus) and for SandboxedEnvironment, "
    "ImmutableSandboxedEnvironment and NativeEnvironment (small corpus): same text/value or same exception class.  (B) A "
    "family of ~70 templates that call data functions and iterate data iterables in every position (output, filter "
    "arguments, tests, conditions, loop iterables with every loop attribute, loop filters, recursive loops, macros, call "
    "blocks, set, with, includes, imports) is rendered with plain data in sync mode and, in async mode, with plain data, "
    "with every callable replaced by a coroutine function, with every iterable replaced by an async generator, and with "
    "both: same output or same exception class, in all four environment classes.",
    "note": "Corpus bounds of vf/corpus.py.  Async iterables are only placed where the documentation promises support (for "
    "loops and the filters that have async variants); filters without an async variant get a plain list.  render/generate "
    "in an async environment go through jinja's own asyncio.run; the *_async entry points are driven without a loop.",
    "design_ref": "DESIGN.md §4 C09",
}


def env_classes():
    import jinja2
    from jinja2.nativetypes import NativeEnvironment
    from jinja2.sandbox import ImmutableSandboxedEnvironment, SandboxedEnvironment

    return {"Environment": jinja2.Environment, "Sandboxed": SandboxedEnvironment,
            "ImmutableSandboxed": ImmutableSandboxedEnvironment, "Native": NativeEnvironment}


def tag(v):
    """type-exact comparison value (native environments return non-strings)"""
    if isinstance(v, tuple) and v[:1] == ("exc",):
        return v
    if isinstance(v, str):
        return v
    return (type(v).__name__, repr(v))


def async_entries(t, data, full):
    out = {}
    out["render_async"] = tag(corpus.outcome(lambda: e4.run(t.render_async(**data))))

    def gen_async():
        async def consume():
            return [x async for x in t.generate_async(**data)]
        return "".join(map(str, e4.run(consume())))
    out["generate_async"] = corpus.outcome(gen_async)
    if full:
        out["render"] = tag(corpus.outcome(lambda: t.render(**data)))
        out["generate"] = corpus.outcome(lambda: "".join(map(str, t.generate(**data))))
    return out


def corpus_shard(arg):
    cname, ctier, k, n = arg
    p = core.Part()
    cls = env_classes()[cname]
    native = cname == "Native"
    for it in corpus.items(ctier, shard=(k, n)):
        env, gm, data = corpus.safe_make(it, env_cls=cls)
        ref = tag(corpus.outcome(lambda: gm().render(**data)))
        ref_gen = corpus.outcome(lambda: "".join(map(str, gm().generate(**data))))
        p.evals += 1
        aenv, agm, adata = corpus.safe_make(it, env_cls=cls, env_kwargs={"enable_async": True})
        try:
            t = agm()
        except Exception as e:  # noqa: BLE001
            res = {"load": ("exc", type(e).__name__)}
        else:
            res = async_entries(t, adata, full=(k % 4 == 0))
        p.sig((cname, it.kind, str(ref)[:20]))
        for name, got in res.items():
            want = ref_gen if (native and name.startswith("generate")) else ref
            if name == "load":
                want = ref if isinstance(ref, tuple) else None
            if got != want:
                p.violation(f"C09/corpus/{cname}/{name}/{it.kind}", {
                    "msg": f"{it.ident} [{cname}]: async {name} gave {got!r}, sync render gave {want!r}",
                    "script": "print(%r)\n" % {"sources": it.sources, "class": cname}})
        p.sample({"item": it.ident, "class": cname, "sync": str(ref)[:60]}, cap=1)
    return p


# ------------------------------------------------------------------ (B) data variants

FAMILY = {
    "call_out": "{{ f() }}|{{ g(1) }}|{{ g(f()) }}",
    "call_arith": "{{ f() + g(2) }}|{{ g(3) * 2 }}|{{ -g(1) }}|{{ g(2) ** 2 }}|{{ g(7) // 2 }}",
    "call_cmp": "{{ f() < g(2) }}|{{ g(1) == f() }}|{{ f() in [1, 2] }}|{{ g(1) < g(2) < g(3) }}",
    "call_bool": "{{ f() and g(0) }}|{{ g(0) or f() }}|{{ not g(0) }}",
    "call_cond": "{{ f() if g(1) else g(2) }}|{{ g(3) if g(0) }}|{{ (f() if g(0) else g(5)) + 1 }}",
    "call_filter": "{{ f()|string|upper }}|{{ s()|upper }}|{{ s()|default('d') }}|{{ none()|default('d', true) }}|{{ g(-3)|abs }}",
    "call_filter_arg": "{{ 'x'|center(g(5)) }}|{{ items|join(s()) }}|{{ plain|batch(g(2))|list }}|{{ 'abc'|replace('b', s()) }}",
    "call_test": "{{ f() is odd }}|{{ g(2) is divisibleby(g(2)) }}|{{ none() is none }}|{{ s() is string }}|{{ f() is sameas(f()) }}",
    "call_attr": "{{ o().a }}|{{ o()['k'] }}|{{ o().m() }}|{{ o().a|string }}|{{ d().k }}",
    "call_nested_data": "{{ [f(), g(2)] }}|{{ {'a': f()} }}|{{ (f(), g(3)) }}|{{ [f(), g(2)]|sum }}",
    "call_kwargs": "{{ kw(a=f(), b=g(2)) }}|{{ kw(*[f()], **{'c': g(3)}) }}",
    "call_slice": "{{ plain[f():g(3)] }}|{{ plain[g(0)] }}|{{ 'abcd'[g(1):] }}",
    "call_concat": "{{ s() ~ f() ~ g(2) }}|{{ '%s-%s'|format(f(), s()) }}|{{ '%d' % f() }}",
    "if_stmt": "{% if f() %}T{{ g(1) }}{% elif g(0) %}E{% else %}F{% endif %}|{% if g(0) %}T{% elif g(2) %}E{{ f() }}{% else %}F{% endif %}",
    "set_stmt": "{% set a = f() %}{% set b, c = g(2), s() %}{{ a }}{{ b }}{{ c }}{% set v %}[{{ f() }}]{% endset %}{{ v }}",
    "with_stmt": "{% with a = f(), b = g(a) %}{{ a }}{{ b }}{% endwith %}",
    "macro": "{% macro m(a, b=f()) %}({{ a }},{{ b }},{{ g(a) }}){% endmacro %}{{ m(g(2)) }}{{ m(f(), s()) }}",
    "macro_caller": "{% macro m() %}[{{ caller(f()) }}]{% endmacro %}{% call(v) m() %}{{ v }}{{ g(v) }}{% endcall %}",
    "filter_block": "{% filter upper %}{{ s() }}{{ f() }}{% endfilter %}",
    "for_call_iter": "{% for x in lst() %}{{ x }}{{ g(x) }},{% endfor %}",
    "for_items": "{% for x in items %}{{ x }}{{ g(x) }},{% endfor %}",
    "for_loopvars": "{% for x in items %}{{ loop.index }}{{ loop.index0 }}{{ loop.revindex }}{{ loop.revindex0 }}{{ loop.first }}{{ loop.last }}{{ loop.length }}{{ loop.previtem }}{{ loop.nextitem }}{{ loop.cycle('a', 'b') }}{{ loop.changed(x) }};{% endfor %}",
    # look-ahead attributes (last, nextitem) BEFORE the length-based ones, on sized, unsized, filtered and recursive loops
    "for_lookahead_first": "{% for x in items %}{{ loop.last }}{{ loop.length }}{{ loop.revindex }}{{ loop.revindex0 }};{% endfor %}|{% for x in items %}{{ loop.nextitem }}{{ loop.revindex0 }}{{ loop.length }};{% endfor %}|{% for x in items %}{% if loop.index == 2 %}{{ loop.last }}{{ loop.length }}{% endif %}{{ loop.revindex }};{% endfor %}",
    "for_lookahead_filtered": "{% for x in items if x != g(2) %}{{ loop.last }}{{ loop.length }}{{ loop.revindex }};{% endfor %}|{% for x in gen3() %}{{ loop.nextitem }}{{ loop.length }}{{ loop.revindex0 }};{% endfor %}|{% for x in gen3() %}{{ loop.revindex }}{{ loop.last }};{% endfor %}",
    "for_lookahead_recursive": "{% for n in tree recursive %}{{ loop.last }}{{ loop.length }}{{ loop.revindex }}{% if n.c %}({{ loop(n.c) }}){% endif %}{% endfor %}",
    "for_else": "{% for x in empty %}{{ x }}{% else %}E{{ f() }}{% endfor %}",
    "for_filter": "{% for x in items if x != g(2) %}{{ x }}{{ loop.length }}{% else %}E{% endfor %}",
    "for_filter_all": "{% for x in items if g(0) %}{{ x }}{% else %}E{% endfor %}",
    "for_nested": "{% for x in items %}{% for y in items2 %}{{ x }}{{ y }}{{ loop.index }}{% endfor %};{% endfor %}",
    "for_unpack": "{% for a, b in pairs %}{{ a }}={{ b }}{{ g(b) }};{% endfor %}",
    "for_recursive": "{% for n in tree recursive %}{{ n.v }}{{ loop.depth }}{% if n.c %}({{ loop(n.c) }}){% endif %}{% endfor %}",
    "for_break": "{% for x in items %}{% if x == g(2) %}{% break %}{% endif %}{{ x }}{% endfor %}|{% for x in items %}{% if x == f() %}{% continue %}{% endif %}{{ x }}{% endfor %}",
    "for_set_ns": "{% set ns = namespace(t=0) %}{% for x in items %}{% set ns.t = ns.t + g(x) %}{% endfor %}{{ ns.t }}",
    "filt_join": "{{ items|join(',') }}|{{ objs|join('/', attribute='v') }}",
    "filt_list": "{{ items|list }}|{{ items|list|length }}",
    "filt_first": "{{ items|first }}|{{ empty|first }}|{{ empty|first|default('d') }}",
    "filt_sum": "{{ items|sum }}|{{ objs|sum(attribute='v') }}|{{ items|sum(start=10) }}",
    "filt_map": "{{ items|map('string')|join(',') }}|{{ objs|map(attribute='v')|list }}|{{ items|map('abs')|list }}",
    "filt_select": "{{ items|select('odd')|list }}|{{ items|reject('odd')|list }}|{{ items|select|list }}",
    "filt_selectattr": "{{ objs|selectattr('v', 'odd')|map(attribute='v')|list }}|{{ objs|rejectattr('v', 'odd')|map(attribute='v')|list }}",
    "filt_unique": "{{ dups|unique|list }}",
    "filt_slice": "{{ items|slice(2)|list }}|{{ items|slice(2, 'F')|list }}",
    "filt_groupby": "{% for k, grp in objs|groupby('p') %}{{ k }}:{{ grp|map(attribute='v')|list }};{% endfor %}",
    # every parameter of every filter that has an async variant, on data with missing attributes and mixed case
    "filt_groupby_args": "{% for k, grp in mixed|groupby('p', default='D') %}{{ k }}={{ grp|map(attribute='v')|join('+') }};{% endfor %}|{% for k, grp in mixed|groupby('p', default='D', case_sensitive=true) %}{{ k }}={{ grp|length }};{% endfor %}|{% for g in mixed|groupby('q.r', default='Z') %}{{ g.grouper }}:{{ g.list|length }};{% endfor %}",
    "filt_unique_args": "{{ words|unique|list }}|{{ words|unique(case_sensitive=true)|list }}|{{ mixed|unique(attribute='p')|map(attribute='v')|list }}",
    "filt_join_args": "{{ mixed|join(',', attribute='v') }}|{{ words|join }}|{{ words|join('<') }}",
    "filt_first_args": "{{ words|first }}|{{ mixed|first|attr('v') }}",
    "filt_slice_args": "{{ items|slice(3)|list }}|{{ items|slice(3, 0)|list }}|{{ items|slice(4)|list }}|{{ items|slice(1)|list }}",
    "filt_sum_args": "{{ mixed|sum(attribute='v', start=100) }}|{{ nested|sum(start=[]) }}",
    "filt_map_args": "{{ mixed|map(attribute='p', default='D')|list }}|{{ mixed|map(attribute='q.r', default=none)|list }}|{{ words|map('upper')|list }}|{{ words|map('replace', 'a', 'X')|list }}|{{ items|map('default', 9)|list }}",
    "filt_select_args": "{{ items|select('gt', 1)|list }}|{{ items|reject('divisibleby', 2)|list }}|{{ words|select('in', ['a', 'B'])|list }}|{{ items|reject|list }}",
    "filt_selectattr_args": "{{ mixed|selectattr('p')|map(attribute='v')|list }}|{{ mixed|selectattr('p', 'equalto', 'x')|map(attribute='v')|list }}|{{ mixed|rejectattr('p', 'none')|map(attribute='v')|list }}|{{ mixed|rejectattr('p')|map(attribute='v')|list }}",
    "filt_list_args": "{{ words|list }}|{{ 'abc'|list }}|{{ pairs|list }}",
    # integer attributes (index 0 is falsy), subscripts that yield awaitables, lazily awaited items
    "filt_int_attribute": "{{ pairs|sum(attribute=0) }}|{{ pairs|sum(0) }}|{{ pairs|map(attribute=0)|list }}|{{ pairs|map(attribute=1)|list }}|{{ pairs|join(',', attribute=0) }}|{{ pairs|unique(attribute=0)|list }}|{{ pairs|selectattr(0)|list }}|{{ pairs|rejectattr(0, 'odd')|list }}|{% for k, g in pairs|groupby(0) %}{{ k }}{{ g|length }}{% endfor %}",
    "loop_subscript": "{% for x in items %}{{ loop['index'] }}{{ loop['length'] }}{{ loop['last'] }}{{ loop['revindex'] }}{{ loop['revindex0'] }}{{ loop['nextitem'] }}{{ loop['first'] }};{% endfor %}",
    "subscript_awaitable": "{{ lazy['k'] }}|{{ lazy.k }}|{{ lazy['k'] + 1 }}|{{ o()['k'] }}|{{ d()['k'] }}|{% if lazy['z'] %}T{% else %}F{% endif %}",
    "filt_chain": "{{ items|map('string')|select('string')|map('upper')|join('-') }}|{{ items|select('odd')|sum }}|{{ items|map('abs')|first }}",
    "filt_in_for": "{% for x in items|select('odd') %}{{ x }}{{ loop.last }}{% endfor %}|{% for x in items|map('string') %}{{ x }}{% endfor %}",
    "filt_sync_only": "{{ plain|sort|list }}|{{ plain|reverse|list }}|{{ plain|batch(2)|list }}|{{ plain|length }}|{{ plain|min }}|{{ plain|max }}|{{ plain|last }}|{{ plain|random is number }}",
    "include": "<{% include 'inc' %}>|<{% include 'inc' without context %}>",
    "inc": "i{{ f() }}{% for x in items %}{{ x }}{% endfor %}",
    "import": "{% import 'lib' as l %}{{ l.lm(f()) }}{{ l.lv }}",
    "from_import": "{% from 'lib' import lm with context %}{{ lm(g(2)) }}",
    "lib": "{% macro lm(a) %}L{{ a }}{{ f() }}{% endmacro %}{% set lv = g(9) %}",
    "base": "B[{% block a %}ba{{ f() }}{% endblock %}|{% block b %}{% for x in items %}{{ x }}{% endfor %}{% endblock %}]",
    "child": "{% extends 'base' %}{% block a %}ca{{ g(2) }}{{ super() }}{% endblock %}",
    "self_block": "{% block a %}A{{ f() }}{% endblock %}-{{ self.a() }}",
    "autoescape": "{% autoescape true %}{{ s2() }}{{ s2()|safe }}{% endautoescape %}{{ s2() }}",
    "trans": "{% trans a=f(), b=s() %}x {{ a }} y {{ b }}{% endtrans %}|{% trans n=g(2) %}one{% pluralize %}{{ n }} many{% endtrans %}",
    "do": "{% set l = [] %}{% do l.append(f()) %}{{ l }}",
    "errors": "{{ boom() }}",
    "error_in_loop": "{% for x in items %}{{ x }}{% if x == 2 %}{{ boom() }}{% endif %}{% endfor %}",
    "undefined_call": "{{ nope() }}",
    "undefined_iter": "{% for x in nope %}{{ x }}{% else %}E{% endfor %}|{{ nope|list }}|{{ nope|join(',') }}",
    "undefined_arith": "{{ f() + nope }}",
    "loop_length_agen": "{% for x in items %}{{ loop.length }}{{ x }}{% endfor %}|{% for x in items %}{{ loop.revindex }}{% endfor %}",
    # filters / tests that are not recognisably asynchronous when the template is compiled, attributes that yield awaitables
    "custom_filters": "{{ g(2)|cf1 }}|{{ 3|cf2(1) }}|{{ s()|cf3 }}|{{ items|map('cf1')|list }}|{{ 2 is ct1 }}|{{ 3 is ct2(3) }}|{{ items|select('ct1')|list }}|{% if f() is ct2(1) %}T{% endif %}",
    "attr_awaitable": "{{ po|attr('ap') }}|{{ po.ap }}|{{ po['ap'] }}|{{ po|attr('ap') + 1 }}|{{ [po]|map(attribute='ap')|list }}",
    # (sum/join/unique/groupby with attribute= do not await attribute values; only map does - outside the property's letter)
    "cycler_joiner": "{% set c = cycler(f(), s()) %}{{ c.next() }}{{ c.next() }}{% set j = joiner(s()) %}{{ j() }}a{{ j() }}b",
}
HELPERS = {"inc", "lib", "base"}


class Boom(Exception):
    pass


class Obj:
    def __init__(self, v, p="p"):
        self.v, self.p, self.a = v, p, v * 10

    def m(self):
        return "m%s" % self.v

    def __getitem__(self, k):
        if k == "k":
            return "item%s" % self.v
        raise KeyError(k)

    def __repr__(self):
        return "Obj(%r)" % self.v


class Lazy:
    """mapping whose items are produced by (possibly coroutine) functions: in async mode a subscript yields an
    awaitable that the template engine has to await; every access builds a fresh one"""

    def __init__(self, fk, fz):
        self._f = {"k": fk, "z": fz}

    def __getitem__(self, key):
        return self._f[key]()

    def __repr__(self):
        return "Lazy()"


class Part:
    """object that lacks the attribute `p` (and `q`) when constructed with None"""

    def __init__(self, v, p):
        self.v = v
        if p is not None:
            self.p = p

    def __repr__(self):
        return "Part(%r)" % self.v


class Node:
    def __init__(self, v, c=()):
        self.v, self.c = v, list(c)


class Aw:
    """an awaitable that is not a coroutine object (what a Future, a Task or any object with __await__ is)"""

    def __init__(self, v):
        self.v = v

    def __await__(self):
        return self.v
        yield  # pragma: no cover - makes this a generator function

    def __repr__(self):
        return "<Aw>"


def wrap(impl, style):
    """the same function as plain function / coroutine function / plain function returning a non-coroutine awaitable"""
    if not style:
        return impl
    if style == "aw":
        def wf(*a, **k):
            return Aw(impl(*a, **k))
        return wf

    async def af(*a, **k):
        return impl(*a, **k)
    return af


def custom_filters(style):
    """(filters, tests) registered on the environment; with an async style none of them is recognisably asynchronous
    from the registered object alone except cf1/ct1 in the coroutine-function style"""
    class CallObj:
        def __init__(self, impl):
            self.impl = impl

        if style:
            async def __call__(self, *a, **k):
                return self.impl(*a, **k)
        else:
            def __call__(self, *a, **k):
                return self.impl(*a, **k)

    filters = {"cf1": wrap(lambda v: v * 2, style), "cf2": CallObj(lambda v, n: v + n), "cf3": wrap(lambda v: "<%s>" % v, "aw" if style else False)}
    tests = {"ct1": wrap(lambda v: v % 2 == 0, style), "ct2": CallObj(lambda v, n: v == n)}
    return filters, tests


class PO:
    def __init__(self, style):
        self._style = style

    @property
    def ap(self):
        return wrap(lambda: 7, self._style)()

    def __repr__(self):
        return "PO()"


def make_data(acalls, aiters):
    def fn(impl):
        if acalls == "aw":
            return wrap(impl, "aw")
        if not acalls:
            return impl

        async def af(*a, **k):
            return impl(*a, **k)
        return af

    def it(values):
        if not aiters:
            return list(values)

        class AIter:
            """re-iterable async iterable (a list can be iterated more than once, too)"""

            def __aiter__(self):
                async def agen():
                    for v in values:
                        yield v
                return agen()

            def __repr__(self):
                return "AIter(%r)" % (list(values),)
        return AIter()

    def boom():
        raise Boom("x")

    return {
        "f": fn(lambda: 1), "g": fn(lambda x: x), "s": fn(lambda: "s"), "s2": fn(lambda: "<b>"), "none": fn(lambda: None),
        "o": fn(lambda: Obj(1)), "d": fn(lambda: {"k": "dv"}), "lst": fn(lambda: [1, 2, 3]), "boom": fn(boom),
        "kw": fn(lambda *a, **k: "%r%r" % (a, sorted(k.items()))),
        "items": it([1, 2, 3, -4]), "items2": [5, 6], "empty": it([]), "pairs": it([(1, 2), (3, 4)]),
        "objs": it([Obj(1, "x"), Obj(2, "y"), Obj(3, "x")]), "dups": it([1, 2, 1, 3, 2]),
        "tree": it([Node(1, [Node(2), Node(3, [Node(4)])]), Node(5)]), "plain": [3, 1, 2],
        "lazy": Lazy(fn(lambda: 1), fn(lambda: 0)),
        "mixed": it([Part(1, None), Part(2, "x"), Part(3, None), Part(4, "X"), Part(5, "y")]),
        "words": it(["a", "B", "A", "b", "c"]), "nested": it([[1], [2, 3]]),
        "po": PO(acalls),
        "gen3": fn(lambda: (i for i in (7, 8, 9))),
    }


def family_shard(arg):
    import jinja2

    name, cname = arg
    p = core.Part()
    cls = env_classes()[cname]
    ext = ["jinja2.ext.loopcontrols", "jinja2.ext.i18n", "jinja2.ext.do"]

    def mk(async_, style=False):
        env = cls(loader=jinja2.DictLoader(dict(FAMILY)), enable_async=async_, extensions=ext)
        env.install_null_translations()
        fl, ts = custom_filters(style)
        env.filters.update(fl)
        env.tests.update(ts)
        return env

    ref_env = mk(False)
    ref = tag(corpus.outcome(lambda: ref_env.get_template(name).render(**make_data(False, False))))
    native = cname == "Native"
    for acalls in (False, True, "aw"):
        for aiters in (False, True):
            env = mk(True, acalls)
            for entry in ("render_async", "generate_async", "render", "generate"):
                data = make_data(acalls, aiters)
                t = env.get_template(name)
                if entry == "render_async":
                    got = tag(corpus.outcome(lambda: e4.run(t.render_async(**data))))
                elif entry == "render":
                    got = tag(corpus.outcome(lambda: t.render(**data)))
                elif entry == "generate":
                    if native:
                        continue
                    got = corpus.outcome(lambda: "".join(map(str, t.generate(**data))))
                else:
                    if native:
                        continue

                    def ga():
                        async def consume():
                            return [x async for x in t.generate_async(**data)]
                        return "".join(map(str, e4.run(consume())))
                    got = corpus.outcome(ga)
                p.evals += 1
                p.sig((name, cname, acalls, aiters, str(got)[:16]))
                if got != ref:
                    variant = ("awaitables" if acalls == "aw" else "acalls" if acalls else "") + ("+" if acalls and aiters else "") + ("aiters" if aiters else "") or "plain"
                    p.violation(f"C09/family/{name}/{variant}", {
                        "msg": f"{name} [{cname}] {entry} with {variant} data: {got!r}; sync render: {ref!r}; source {FAMILY[name]!r}",
                        "script": f"from checks import c09\nc09.replay({name!r}, {cname!r}, {acalls!r}, {aiters!r})\n"})
    p.sample({"template": name, "source": FAMILY[name], "class": cname, "sync": str(ref)[:80]}, cap=1)
    return p


def replay(name, cname, acalls, aiters):
    core.import_all_jinja()
    import jinja2

    cls = env_classes()[cname]
    ext = ["jinja2.ext.loopcontrols", "jinja2.ext.i18n", "jinja2.ext.do"]
    for async_ in (False, True):
        env = cls(loader=jinja2.DictLoader(dict(FAMILY)), enable_async=async_, extensions=ext)
        env.install_null_translations()
        fl, ts = custom_filters(acalls and async_)
        env.filters.update(fl)
        env.tests.update(ts)
        d = make_data(acalls and async_, aiters and async_)
        print("async" if async_ else "sync ", repr(corpus.outcome(lambda: env.get_template(name).render(**d))))


def dispatch(arg):
    return corpus_shard(arg[1]) if arg[0] == "c" else family_shard(arg[1])


def run(ctx: core.Ctx):
    core.import_all_jinja()
    ctx.rule = ("(A) every corpus item x environment class x async entry point; (B) every family template x class x data "
                "variant x entry point; distinct = distinct (class, item kind / template, variant, output prefix)")
    ctx.assumptions += ["async iterables are only used where async support is documented (for loops, filters with async variants)"]
    n = 48
    shards = [("c", ("Environment", ctx.tier, k, n)) for k in range(n)]
    small = "small" if ctx.quick else "quick"
    for cname in ("Sandboxed", "ImmutableSandboxed", "Native"):
        shards += [("c", (cname, small, k, 16)) for k in range(16)]
    shards += [("f", (name, cname)) for name in FAMILY if name not in HELPERS for cname in env_classes()]
    ctx.pmap(dispatch, shards)
    ctx.cov["bounds"] = {"corpus_default_class": str(corpus.BOUNDS[ctx.tier]), "corpus_other_classes": str(corpus.BOUNDS[small]),
                         "family_templates": len(FAMILY) - len(HELPERS)}
