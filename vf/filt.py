"""Shared plumbing for the filter-contract checks C22 / C23 / C24 (R-filt).

Nothing in here is a reference model; this module only knows how to
* enumerate sequences / strings over a small alphabet completely,
* spell Python values as Jinja literals,
* apply one filter through the four routes (sync/async environment x
  template source / ``Environment.call_filter``) without an event loop,
* reduce results to a strict canonical form (type-tagged, no default reprs).
"""
from __future__ import annotations

import inspect
import itertools


# ------------------------------------------------------------------ enumeration


def seqs(alphabet, maxlen, minlen=0):
    """all tuples over `alphabet` of length minlen..maxlen, shortest first."""
    for n in range(minlen, maxlen + 1):
        yield from itertools.product(alphabet, repeat=n)


def strings(alphabet, maxlen, minlen=0):
    for t in seqs(alphabet, maxlen, minlen):
        yield "".join(t)


def count_seqs(k, maxlen, minlen=0):
    return sum(k ** n for n in range(minlen, maxlen + 1))


def chunks(xs, n):
    xs = list(xs)
    k = max(1, (len(xs) + n - 1) // n)
    return [xs[i:i + k] for i in range(0, len(xs), k)]


# ------------------------------------------------------------------ probe objects


class O:
    """attribute holder with value equality and a stable repr."""

    def __init__(self, **kw):
        self.__dict__.update(kw)

    def __repr__(self):
        return "O(" + ", ".join(f"{k}={v!r}" for k, v in sorted(self.__dict__.items())) + ")"

    def __eq__(self, other):
        return type(other) is O and self.__dict__ == other.__dict__

    def __hash__(self):
        return hash(repr(self))


O_SOURCE = (
    "class O:\n"
    "    def __init__(self, **kw): self.__dict__.update(kw)\n"
    "    def __repr__(self): return 'O(' + ', '.join(f'{k}={v!r}' for k, v in sorted(self.__dict__.items())) + ')'\n"
)


class Var:
    """an argument passed by reference (context variable in template source)
    so that in-place modification by a filter is observable."""

    def __init__(self, name, value):
        self.name = name
        self.value = value

    def __repr__(self):
        return f"Var({self.name}={self.value!r})"


# ------------------------------------------------------------------ literals


def lit(v):
    """spell a Python value as a Jinja expression literal."""
    if isinstance(v, Var):
        return v.name
    if v is None:
        return "none"
    if v is True:
        return "true"
    if v is False:
        return "false"
    if isinstance(v, (int, float)):
        return repr(v)
    if isinstance(v, str):
        out = ['"']
        for ch in v:
            if ch == "\\":
                out.append("\\\\")
            elif ch == '"':
                out.append('\\"')
            elif ch == "\n":
                out.append("\\n")
            elif ch == "\r":
                out.append("\\r")
            elif ch == "\t":
                out.append("\\t")
            elif ch == "\f":
                out.append("\\f")
            else:
                out.append(ch)
        out.append('"')
        return "".join(out)
    if isinstance(v, list):
        return "[" + ", ".join(lit(x) for x in v) + "]"
    if isinstance(v, tuple):
        return "(" + ", ".join(lit(x) for x in v) + ("," if len(v) == 1 else "") + ")"
    if isinstance(v, dict):
        return "{" + ", ".join(f"{lit(k)}: {lit(x)}" for k, x in v.items()) + "}"
    raise TypeError(f"no literal for {v!r}")


def call_src(name, args=(), kwargs=None):
    parts = [lit(a) for a in args] + [f"{k}={lit(v)}" for k, v in (kwargs or {}).items()]
    return name + ("(" + ", ".join(parts) + ")" if parts else "")


# ------------------------------------------------------------------ loop-free async driving


class Suspend:
    """awaitable that really suspends once (yields to the driver)."""

    def __await__(self):
        yield None


def run_coro(coro):
    """drive a coroutine to completion without an event loop."""
    try:
        while True:
            coro.send(None)
    except StopIteration as e:
        return e.value


async def agen_of(items):
    for x in items:
        await Suspend()
        yield x


async def _collect(ag):
    return [x async for x in ag]


def drain(v):
    """materialise what a filter returned: coroutine -> its value, async
    generator -> list, iterator/generator -> list; everything else as is."""
    for _ in range(4):
        if inspect.iscoroutine(v):
            v = run_coro(v)
            continue
        if hasattr(v, "__anext__"):
            return run_coro(_collect(v))
        if hasattr(v, "__next__"):
            return list(v)
        return v
    return v


# ------------------------------------------------------------------ canonical form


def canon(v):
    """strict, type-tagged, repr-free canonical form of a filter result."""
    from jinja2.runtime import Undefined
    from markupsafe import Markup

    if isinstance(v, Undefined):
        return "<undefined>"
    if v is None:
        return None
    if isinstance(v, bool):
        return ("bool", v)
    if isinstance(v, int):
        return ("int", v)
    if isinstance(v, float):
        return ("float", repr(v))
    if isinstance(v, Markup):
        return ("Markup", str(v))
    if isinstance(v, str):
        return ("str", str(v))
    if isinstance(v, list):
        return ("list", [canon(x) for x in v])
    if isinstance(v, tuple):
        return ("tuple", [canon(x) for x in v])
    if isinstance(v, dict):
        return ("dict", [(canon(k), canon(x)) for k, x in v.items()])
    if isinstance(v, O):
        return ("O", repr(v))
    if isinstance(v, Raises):
        return ("raises", v.name)
    return ("other", type(v).__name__)


class Raises:
    def __init__(self, name):
        self.name = name

    def __repr__(self):
        return f"Raises({self.name})"


def outcome(fn):
    """canon(fn()) or ('raises', ExceptionClassName)."""
    try:
        return canon(fn())
    except Exception as e:  # noqa: BLE001
        return ("raises", type(e).__name__)


# ------------------------------------------------------------------ the four routes


class Routes:
    """One filter expression compiled once in a sync and an async environment;
    applied to many inputs.  `pre`/`post` are extra filter names put before /
    after the filter under test (e.g. post='list' for iterator results)."""

    def __init__(self, name, args=(), kwargs=None, pre=(), post=(), env_kwargs=None, want_async=True):
        import jinja2

        self.name, self.args, self.kwargs = name, tuple(args), dict(kwargs or {})
        self.pre, self.post = tuple(pre), tuple(post)
        ek = dict(env_kwargs or {})
        self.env = {"sync": jinja2.Environment(**ek)}
        if want_async:
            self.env["async"] = jinja2.Environment(enable_async=True, **ek)
        chain = "|".join(["xs", *self.pre, call_src(name, self.args, self.kwargs), *self.post])
        self.src = chain
        self.expr = self.env["sync"].compile_expression(chain, undefined_to_none=False)
        self.atmpl = self.env["async"].from_string("{{ rec(" + chain + ") }}") if want_async else None
        self.ctx = {m: e.from_string("").new_context({}) for m, e in self.env.items()}
        self.vars = [a for a in list(self.args) + list(self.kwargs.values()) if isinstance(a, Var)]

    def _unvar(self, fresh):
        args = [fresh[a.name] if isinstance(a, Var) else a for a in self.args]
        kwargs = {k: (fresh[a.name] if isinstance(a, Var) else a) for k, a in self.kwargs.items()}
        return args, kwargs

    def apply(self, mode, route, xs, fresh):
        """mode in sync/async, route in tpl/call; xs the (wrapped) input;
        fresh: name -> fresh copy of every Var argument."""
        if route == "tpl":
            if mode == "sync":
                return self.expr(xs=xs, **fresh)
            box = []
            run_coro(self.atmpl.render_async(xs=xs, rec=box.append, **fresh))
            return box[0]
        env, ctx = self.env[mode], self.ctx[mode]
        v = xs
        for f in self.pre:
            v = drain(env.call_filter(f, v, context=ctx))
        args, kwargs = self._unvar(fresh)
        v = env.call_filter(self.name, v, args, kwargs, context=ctx)
        for f in self.post:
            v = env.call_filter(f, drain_keep(v), context=ctx)
        return drain(v)


def drain_keep(v):
    """await coroutines but keep (async) iterators for the next filter."""
    while inspect.iscoroutine(v):
        v = run_coro(v)
    return v


def wrap(form, base, made):
    """present list `base` as list / tuple / generator / async generator."""
    if form == "list":
        return base
    if form == "tuple":
        return tuple(base)
    if form == "gen":
        return (x for x in base)
    if form == "agen":
        ag = agen_of(base)
        made.append(ag)
        return ag
    if form == "str":
        return "".join(base)
    if form == "same":
        return base
    raise AssertionError(form)


def close_agens(made):
    for ag in made:
        try:
            run_coro(ag.aclose())
        except Exception:  # noqa: BLE001
            pass
    made.clear()
