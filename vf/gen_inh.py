"""gen_inh — bounded-exhaustive generator of template-inheritance chains and the
independent reference resolver R-inh.

PUBLIC INTERFACE (stable; used by checks/c04.py and meant for C09/C10/C16/C31/C32)

A *case* is a structural description, never source text::

    case   = (names, levels, flags)
    names  = ("a", "b")                    block names in use (1..3 of "a","b","c")
    levels = (level_0, ..., level_n-1)     level_0 = root, level_n-1 = the template rendered
    level  = (ext, kinds, selfcall)
        ext      None for the root, else one of EXT_FORMS:
                 "lit"  {% extends "t<L-1>" %}
                 "var"  {% extends pv<L> %}            data pv<L> = parent name (str)
                 "obj"  {% extends pv<L> %}            data pv<L> = Template object (TemplateRef marker)
                 "cond" {% extends "t<L-1>" if f<L> else "alt" %}
                 "if"   {% if f<L> %}{% extends "t<L-1>" %}{% endif %}
                 "dbl"  {% extends "t<L-1>" %}{% extends "alt" %}       -> TemplateRuntimeError
                 "ifif" {% if f<L> %}{% extends "t<L-1>" %}{% endif %}=<L>{% if g<L> %}{% extends "alt" %}{% endif %}
        kinds    one entry per name, in the order of `names`:
                 "-"     block absent in this template
                 "text"  {% block x %}<xL{{ i }}>{% endblock %}
                 "super" ... <xL{{ i }}:{{ super() }}>
                 "ss"    ... <xL{{ i }}:{{ super.super() }}>
                 "self"  ... <xL{{ i }}:{{ self.y() }}>            y = next name (cyclic)
                 "nest"  ... <xL{{ i }}:{% block y %}..{% endblock %}>   y's definition is placed inside x
                 "fors"  {% for i in LV %}({% block x scoped %}<xL{{ i }}>{% endblock %}){% endfor %}
                 "foru"  same without `scoped` (the body must NOT see the loop variable)
                 "req"   {% block x required %} {# r #} {% endblock %}   (root only)
                 "forif"   like "fors" but the scoped block sits inside {% if i %} inside the loop body
                 "forwith" like "fors" but inside {% with w = i %} inside the loop body
                 "for2"    {% for o in ["m","n"] %}{{ loop.index }}<forif loop>{% endfor %}  (outer loop uses `loop`)
                 "forfilter" the "fors" loop inside {% filter string %}..{% endfilter %}      (buffered frames: the
                 "forset"    the "fors" loop inside {% set sv %}..{% endset %}{{ sv }}          block call is compiled
                 "forrec"    the "fors" loop declared `recursive`                               on the slow path)
                 "loop"    {% block x %}<xL{{ i }}#{{ loop.index }}/{{ loop.length }}>{% endblock %}  (sees the loop
                           of a scoped block tag placed in a loop; otherwise `loop` is undefined -> UndefinedError)
                 "selfsuper" ... <xL{{ i }}:{{ self.y() }}:{{ super() }}>        both in one body
                 "selfss"    ... <xL{{ i }}:{{ self.y() }}:{{ super.super() }}>
                 (the last six kinds are only used by the small extra plans, see BOUNDS; plan["kinds"] may be a
                 dict {"root": kinds, "child": kinds} instead of "full"/"reduced")
        selfcall None, or a block name: the template's layout ends with ~{{ self.<name>() }}
    flags  = ((f, g), ...) one pair per level; entries not used by the level's ext form are None

    Every template has literal marker text before / between / after its blocks
    ("[L" "|L" "L]") and, in children, before the extends tag ("^L"), so any
    misplaced or wrongly suppressed output changes the rendered string.  Loop
    values differ per level (LOOP_VALUES).  "alt" is a fixed root template.

    async_cases(bound, shard=None) the cases of the plans flagged "async": True -- to be rendered a second time with
                                  enable_async=True (same expected answer)
    cases(bound, shard=None)      iterator over all cases of a bound, simplest first, deterministic.
                                  bound = "quick" | "thorough" | list of plans (see BOUNDS).
                                  shard = (k, n): the k-th of n disjoint parts (split on the combination of
                                  block kinds, so the union over k is exactly cases(bound)).
    plans(bound) / BOUNDS         the plans of a bound: dicts {depth, names, kinds: "full"|"reduced", forms, selfcall:
                                  "none"|"first"|"all"|"names" (= all without None)}; a plan is the full product of per-template kind assignments
                                  x selfcall x (extends form, flag assignment) per child; levels that a flag
                                  assignment makes unreachable are kept at their first (canonical) choice only.
    count(bound)                  number of cases (enumerates).
    to_templates(case)            -> (sources: dict name->str, main_name, data).  Values of `data` that are
                                  TemplateRef instances must be turned into Template objects with
                                  bind(env, data) once an Environment exists.
    bind(env, data)               -> dict ready for render(**data)
    expected(case, quirks=())     R-inh: the rendered string, or ("exc", "TemplateRuntimeError") /
                                  ("exc", "UndefinedError"); RECURSION for self-recursive cases (cases()
                                  never yields those).
    required_unreached(case)      structural predicate for the known finding "required block whose tag is never
                                  reached" (see the function).
    render(case, env_kwargs=None, loader_wrap=None) -> outcome of the real engine in the same format
                                  (fresh Environment + DictLoader), convenience for checks.
    tojson(case) / fromjson(obj)  JSON round trip for samples and replays.

R-inh follows docs/templates.rst "Template Inheritance", "Extends", "If Expression",
docs/tricks.rst "Null-Default Fallback".  Rules frozen from the pinned tree because the
documentation is silent are tagged `# CALIBRATED` below.
"""
from __future__ import annotations

import itertools

ALL_NAMES = ("a", "b", "c")
EXT_FORMS = ("lit", "var", "obj", "cond", "if", "dbl", "ifif")
KINDS_CHILD = ("-", "text", "super", "ss", "self", "nest", "fors", "foru")
KINDS_ROOT = KINDS_CHILD + ("req",)
KINDS_REDUCED = ("-", "super", "nest", "fors")
KINDS_REDUCED_ROOT = KINDS_REDUCED + ("req",)
KINDS_LOOP = {"root": ("text", "fors", "foru", "forif", "forwith", "for2"), "child": ("-", "text", "super", "loop")}
KINDS_BUF = {"root": ("text", "fors", "forfilter", "forset", "forrec"), "child": ("-", "text", "super", "loop")}
KINDS_LOOP2 = {"root": ("text", "nest", "forif", "forwith", "for2", "forfilter", "forset", "forrec"), "child": ("-", "text", "loop")}
KINDS_BOTH = {"root": ("-", "text", "self"), "child": ("-", "text", "super", "selfsuper", "selfss")}
KINDS_BOTH3 = {"root": ("-", "text", "self"), "child": ("-", "text", "selfsuper", "selfss")}
FOR_KINDS = ("fors", "foru", "forif", "forwith", "for2", "forfilter", "forset", "forrec")
LOOP_VALUES = (("p", "q"), ("r", "s"), ("t", "u"), ("v", "w"))
OUTER_VALUES = ("m", "n")
ALT = "alt"
RECURSION = ("skip", "recursion")


class TemplateRef:
    """Marker in `data`: replace by env.get_template(name) (see bind())."""

    __slots__ = ("name",)

    def __init__(self, name):
        self.name = name

    def __repr__(self):
        return f"TemplateRef({self.name!r})"


# ------------------------------------------------------------------ structure helpers


def _next(names, x):
    return names[(names.index(x) + 1) % len(names)]


def level_ok(names, kinds, root):
    """static validity of one template's kind assignment."""
    n = len(names)
    for i, k in enumerate(kinds):
        if k == "req" and not root:
            return False
        if k in ("nest", "self", "selfsuper", "selfss") and n == 1:
            return False
        if k == "nest":
            if kinds[(i + 1) % n] == "-":
                return False
    # every block is nested by at most one other (by construction: only the predecessor can nest it);
    # reject nesting cycles
    if n > 1 and all(k == "nest" for k in kinds):
        return False
    return True


def toplevel_blocks(names, kinds):
    """names of blocks defined at the top level of the template, in source order."""
    n = len(names)
    nested = {names[(i + 1) % n] for i, k in enumerate(kinds) if k == "nest"}
    return [x for x, k in zip(names, kinds) if k != "-" and x not in nested]


def flag_variants(ext):
    if ext in (None, "lit", "var", "obj", "dbl"):
        return ((None, None),)
    if ext in ("cond", "if"):
        return ((True, None), (False, None))
    if ext == "ifif":
        return ((True, False), (False, True), (False, False), (True, True))
    raise ValueError(ext)


def cuts_chain(ext, fl):
    """True when the template never loads its regular parent t<L-1>."""
    f, g = fl
    if ext == "cond":
        return not f
    if ext == "if":
        return not f
    if ext == "ifif":
        return not f
    return False


# ------------------------------------------------------------------ enumeration

# A plan: depth, names, kinds profile, ext forms allowed per child, selfcall options on the root
BOUNDS = {
    "quick": [
        {"depth": 1, "names": ("a", "b"), "kinds": "full", "forms": EXT_FORMS, "selfcall": "all"},
        {"depth": 2, "names": ("a", "b"), "kinds": "full", "forms": EXT_FORMS, "selfcall": "none"},
        {"depth": 2, "names": ("a", "b"), "kinds": "full", "forms": ("lit",), "selfcall": "names"},
        {"depth": 3, "names": ("a",), "kinds": "full", "forms": EXT_FORMS, "selfcall": "none"},
        {"depth": 3, "names": ("a",), "kinds": "full", "forms": ("lit",), "selfcall": "names"},
        # small extra plans: scoped blocks that are not direct children of the loop body x overrides
        # using `loop`; block bodies using self.y() and super() together
        {"depth": 2, "names": ("a",), "kinds": KINDS_LOOP, "forms": EXT_FORMS, "selfcall": "none", "async": True},
        {"depth": 2, "names": ("a",), "kinds": KINDS_BUF, "forms": ("lit", "if"), "selfcall": "none", "async": True},
        {"depth": 3, "names": ("a",), "kinds": KINDS_LOOP, "forms": ("lit",), "selfcall": "none"},
        {"depth": 2, "names": ("a", "b"), "kinds": KINDS_LOOP2, "forms": ("lit",), "selfcall": "none"},
        {"depth": 2, "names": ("a", "b"), "kinds": KINDS_BOTH, "forms": ("lit", "if"), "selfcall": "none"},
        {"depth": 3, "names": ("a", "b"), "kinds": KINDS_BOTH3, "forms": ("lit",), "selfcall": "none"},
    ],
    "thorough": [
        {"depth": 1, "names": ("a", "b", "c"), "kinds": "full", "forms": EXT_FORMS, "selfcall": "all"},
        {"depth": 2, "names": ("a", "b"), "kinds": "full", "forms": EXT_FORMS, "selfcall": "all"},
        {"depth": 2, "names": ("a", "b", "c"), "kinds": "reduced", "forms": EXT_FORMS, "selfcall": "none"},
        {"depth": 3, "names": ("a",), "kinds": "full", "forms": EXT_FORMS, "selfcall": "first"},
        {"depth": 3, "names": ("a", "b"), "kinds": "full", "forms": ("lit",), "selfcall": "none"},
        {"depth": 3, "names": ("a", "b"), "kinds": "reduced", "forms": EXT_FORMS, "selfcall": "none"},
        {"depth": 4, "names": ("a",), "kinds": "full", "forms": EXT_FORMS, "selfcall": "none"},
        # small extra plans: scoped blocks that are not direct children of the loop body x overrides
        # using `loop`; block bodies using self.y() and super() together
        {"depth": 2, "names": ("a",), "kinds": KINDS_LOOP, "forms": EXT_FORMS, "selfcall": "none", "async": True},
        {"depth": 2, "names": ("a",), "kinds": KINDS_BUF, "forms": ("lit", "if"), "selfcall": "none", "async": True},
        {"depth": 3, "names": ("a",), "kinds": KINDS_LOOP, "forms": EXT_FORMS, "selfcall": "none"},
        {"depth": 2, "names": ("a", "b"), "kinds": KINDS_LOOP2, "forms": ("lit",), "selfcall": "none"},
        {"depth": 2, "names": ("a", "b"), "kinds": KINDS_BOTH, "forms": ("lit", "if"), "selfcall": "none"},
        {"depth": 3, "names": ("a", "b"), "kinds": KINDS_BOTH3, "forms": ("lit",), "selfcall": "none"},
    ],
}


def _level_kinds(names, profile, root):
    if isinstance(profile, dict):
        ks = tuple(profile["root" if root else "child"])
    elif profile == "full":
        ks = KINDS_ROOT if root else KINDS_CHILD
    elif profile == "reduced":
        ks = KINDS_REDUCED_ROOT if root else KINDS_REDUCED
    else:
        raise ValueError(profile)
    out = [kinds for kinds in itertools.product(ks, repeat=len(names)) if level_ok(names, kinds, root)]
    # simplest first: fewer defined blocks, then order in the kind list
    out.sort(key=lambda kinds: (sum(k != "-" for k in kinds), [ks.index(k) for k in kinds]))
    return out


def _plan_cases(plan, shard=None):
    names = tuple(plan["names"])
    depth = plan["depth"]
    root_kinds = _level_kinds(names, plan["kinds"], True)
    child_kinds = _level_kinds(names, plan["kinds"], False)
    canon_root = root_kinds[0]
    canon_child = child_kinds[0]
    sc = plan["selfcall"]
    selfcalls = {"none": (None,), "first": (None, names[0]), "all": (None,) + names, "names": names}[sc]
    ext_choices = [(e, fl) for e in plan["forms"] for fl in flag_variants(e)]
    # block kinds vary slowest (root first), extends forms fastest; a shard owns every
    # n-th combination of block kinds and sees every extends form on it
    per_level_kinds = [root_kinds] + [child_kinds] * (depth - 1)
    for idx, kinds_all in enumerate(itertools.product(*per_level_kinds)):
        if shard is not None and idx % shard[1] != shard[0]:
            continue
        for selfcall in selfcalls:
            for exts in itertools.product(ext_choices, repeat=depth - 1):
                # levels that are never loaded are irrelevant: keep only their canonical choice
                cut = 0
                for lv in range(depth - 1, 0, -1):
                    e, fl = exts[lv - 1]
                    if cuts_chain(e, fl):
                        cut = lv
                        break
                if cut:
                    ok = kinds_all[0] == canon_root and selfcall is None
                    ok = ok and all(kinds_all[j] == canon_child for j in range(1, cut))
                    ok = ok and all(exts[j - 1] == ext_choices[0] for j in range(1, cut))
                    if not ok:
                        continue
                levels = [(None, kinds_all[0], selfcall)]
                flags = [(None, None)]
                for lv in range(1, depth):
                    e, fl = exts[lv - 1]
                    levels.append((e, kinds_all[lv], None))
                    flags.append(fl)
                case = (names, tuple(levels), tuple(flags))
                if expected(case) == RECURSION:
                    continue
                yield case


def plans(bound):
    return BOUNDS[bound] if isinstance(bound, str) else list(bound)


def cases(bound="quick", shard=None):
    for plan in plans(bound):
        yield from _plan_cases(plan, shard)


def async_cases(bound="quick", shard=None):
    for plan in plans(bound):
        if plan.get("async"):
            yield from _plan_cases(plan, shard)


def count(bound="quick"):
    return sum(1 for _ in cases(bound))


def tojson(case):
    names, levels, flags = case
    return {"names": list(names),
            "levels": [{"ext": e, "kinds": list(k), "selfcall": s} for e, k, s in levels],
            "flags": [list(f) for f in flags]}


def fromjson(obj):
    return (tuple(obj["names"]),
            tuple((lv["ext"], tuple(lv["kinds"]), lv["selfcall"]) for lv in obj["levels"]),
            tuple(tuple(f) for f in obj["flags"]))


# ------------------------------------------------------------------ source emission


def _tname(lv):
    return f"t{lv}"


def _loop_lit(lv):
    return "[" + ", ".join(f'"{v}"' for v in LOOP_VALUES[lv]) + "]"


def _block_src(names, kinds, lv, x):
    k = kinds[names.index(x)]
    tag = f"<{x}{lv}{{{{ i }}}}"
    if k == "text":
        return f"{{% block {x} %}}{tag}>{{% endblock %}}"
    if k == "super":
        return f"{{% block {x} %}}{tag}:{{{{ super() }}}}>{{% endblock %}}"
    if k == "ss":
        return f"{{% block {x} %}}{tag}:{{{{ super.super() }}}}>{{% endblock %}}"
    if k == "self":
        return f"{{% block {x} %}}{tag}:{{{{ self.{_next(names, x)}() }}}}>{{% endblock %}}"
    if k == "nest":
        inner = _block_src(names, kinds, lv, _next(names, x))
        return f"{{% block {x} %}}{tag}:{inner}>{{% endblock {x} %}}"
    if k in ("fors", "foru"):
        sc = " scoped" if k == "fors" else ""
        return (f"{{% for i in {_loop_lit(lv)} %}}({{% block {x}{sc} %}}{tag}>{{% endblock %}}){{% endfor %}}")
    if k in ("forif", "for2"):
        inner = (f"{{% for i in {_loop_lit(lv)} %}}({{% if i %}}{{% block {x} scoped %}}{tag}>{{% endblock %}}"
                 f"{{% endif %}}){{% endfor %}}")
        if k == "forif":
            return inner
        outer = "[" + ", ".join(f'"{v}"' for v in OUTER_VALUES) + "]"
        return f"{{% for o in {outer} %}}{{{{ loop.index }}}}{inner}{{% endfor %}}"
    if k in ("forfilter", "forset", "forrec"):
        rec = " recursive" if k == "forrec" else ""
        loop = (f"{{% for i in {_loop_lit(lv)}{rec} %}}({{% block {x} scoped %}}{tag}>{{% endblock %}}){{% endfor %}}")
        if k == "forfilter":
            return "{% filter string %}" + loop + "{% endfilter %}"
        if k == "forset":
            return "{% set sv %}" + loop + "{% endset %}{{ sv }}"
        return loop
    if k == "forwith":
        return (f"{{% for i in {_loop_lit(lv)} %}}({{% with w = i %}}{{% block {x} scoped %}}{tag}>{{% endblock %}}"
                f"{{% endwith %}}){{% endfor %}}")
    if k == "loop":
        return f"{{% block {x} %}}{tag}#{{{{ loop.index }}}}/{{{{ loop.length }}}}>{{% endblock %}}"
    if k == "selfsuper":
        return f"{{% block {x} %}}{tag}:{{{{ self.{_next(names, x)}() }}}}:{{{{ super() }}}}>{{% endblock %}}"
    if k == "selfss":
        return f"{{% block {x} %}}{tag}:{{{{ self.{_next(names, x)}() }}}}:{{{{ super.super() }}}}>{{% endblock %}}"
    if k == "req":
        return f"{{% block {x} required %}} {{# r #}} {{% endblock %}}"
    raise ValueError(k)


def _layout_src(names, level, lv):
    ext, kinds, selfcall = level
    top = toplevel_blocks(names, kinds)
    parts = [f"[{lv}"]
    first = True
    for x in names:
        if not first:
            parts.append(f"|{lv}")
        first = False
        if x in top:
            parts.append(_block_src(names, kinds, lv, x))
    parts.append(f"{lv}]")
    if selfcall:
        parts.append(f"~{{{{ self.{selfcall}() }}}}")
    return "".join(parts)


def _head_src(ext, lv):
    p = _tname(lv - 1)
    if ext == "lit":
        e = f'{{% extends "{p}" %}}'
    elif ext in ("var", "obj"):
        e = f"{{% extends pv{lv} %}}"
    elif ext == "cond":
        e = f'{{% extends "{p}" if f{lv} else "{ALT}" %}}'
    elif ext == "if":
        e = f'{{% if f{lv} %}}{{% extends "{p}" %}}{{% endif %}}'
    elif ext == "dbl":
        e = f'{{% extends "{p}" %}}{{% extends "{ALT}" %}}'
    elif ext == "ifif":
        e = (f'{{% if f{lv} %}}{{% extends "{p}" %}}{{% endif %}}={lv}'
             f'{{% if g{lv} %}}{{% extends "{ALT}" %}}{{% endif %}}')
    else:
        raise ValueError(ext)
    return f"^{lv}{e}"


ALT_SRC = "[A{% block a %}<aA{{ i }}>{% endblock %}|A{% block b %}<bA{{ i }}>{% endblock %}|A{% block c %}<cA{{ i }}>{% endblock %}A]"


def to_templates(case):
    names, levels, flags = case
    src = {ALT: ALT_SRC}
    data = {}
    for lv, level in enumerate(levels):
        ext = level[0]
        s = ""
        if ext is not None:
            s += _head_src(ext, lv)
            f, g = flags[lv]
            if f is not None:
                data[f"f{lv}"] = f
            if g is not None:
                data[f"g{lv}"] = g
            if ext == "var":
                data[f"pv{lv}"] = _tname(lv - 1)
            elif ext == "obj":
                data[f"pv{lv}"] = TemplateRef(_tname(lv - 1))
        s += _layout_src(names, level, lv)
        src[_tname(lv)] = s
    return src, _tname(len(levels) - 1), data


def bind(env, data):
    return {k: (env.get_template(v.name) if isinstance(v, TemplateRef) else v) for k, v in data.items()}


def render(case, env_kwargs=None, loader_wrap=None):
    """Outcome of the real engine: str, or ("exc", ClassName)."""
    import jinja2

    src, main, data = to_templates(case)
    loader = jinja2.DictLoader(src)
    if loader_wrap is not None:
        loader = loader_wrap(loader)
    env = jinja2.Environment(loader=loader, **(env_kwargs or {}))
    try:
        return env.get_template(main).render(**bind(env, data))
    except Exception as e:  # noqa: BLE001
        return ("exc", type(e).__name__)


# ------------------------------------------------------------------ R-inh


class _Raise(Exception):
    def __init__(self, name):
        self.name = name


class _Recursion(Exception):
    pass


_ALT_LEVEL = (None, ("text", "text", "text"), None)


class _Resolver:
    """Plain-Python resolver of one case.

    docs: "Child Template" — the extends tag locates the parent; everything before it is printed
    normally; (tricks.rst) without an executed extends the template is rendered stand-alone;
    "Extends" — only one extends may be executed; "Super Blocks"/"Nesting extends" — super() is the
    next less-derived definition, super.super() skips one; `self.name()` renders the block (most
    derived definition); "Block Nesting and Scope" — blocks do not see outer variables unless
    `scoped`; "Required Blocks" — must be overridden at some point, else TemplateRuntimeError.
    """

    def __init__(self, case, quirks=()):
        self.names, self.levels, self.flags = case
        self.quirks = frozenset(quirks)
        self.out = []
        self.stacks = {}  # block name -> list of level ids, most derived first
        self.depth = 0
        self.unreached_required = False

    # -- structure access
    def level(self, lid):
        return _ALT_LEVEL if lid == "A" else self.levels[lid]

    def lnames(self, lid):
        return ALL_NAMES if lid == "A" else self.names

    def kind(self, lid, x):
        names = self.lnames(lid)
        if x not in names:
            return "-"
        return self.level(lid)[1][names.index(x)]

    def register(self, lid):
        names = self.lnames(lid)
        for x, k in zip(names, self.level(lid)[1]):
            if k != "-":
                self.stacks.setdefault(x, []).append(lid)

    # -- rendering
    def run(self):
        cur = len(self.levels) - 1
        self.register(cur)
        while True:
            ext = self.level(cur)[0]
            if ext is None:
                break
            self.out.append(f"^{cur}")
            f, g = (None, None) if cur == "A" else self.flags[cur]
            parent = None
            if ext in ("lit", "var", "obj"):
                parent = cur - 1
            elif ext == "cond":
                parent = cur - 1 if f else "A"
            elif ext == "if":
                parent = cur - 1 if f else None
            elif ext == "dbl":
                # docs "Extends": only one extends tag may be executed
                raise _Raise("TemplateRuntimeError")
            elif ext == "ifif":
                if f and g:
                    raise _Raise("TemplateRuntimeError")
                if f:
                    parent = cur - 1
                else:
                    # no extends executed so far: text is printed normally
                    self.out.append(f"={cur}")
                    parent = "A" if g else None
            if parent is None:
                break
            self.register(parent)
            if "leak" in self.quirks:
                # NOT documented behaviour (used only to name a deviation precisely): top-level
                # `for` loops of an extending template still run and render the blocks inside them
                self.leak(cur)
            cur = parent
        self.layout(cur)
        # docs "Required Blocks": must be overridden at some point -- also when the required
        # block's tag is never reached because an enclosing block was overridden
        for x, st in self.stacks.items():
            if self.kind(st[-1], x) == "req" and len(st) <= 1:
                self.unreached_required = True
                if "lazy_required" not in self.quirks:
                    raise _Raise("TemplateRuntimeError")
        return "".join(self.out)

    def leak(self, lid):
        names = self.lnames(lid)
        kinds = self.level(lid)[1]
        for x in toplevel_blocks(names, kinds):
            if self.kind(lid, x) in FOR_KINDS:
                self.placeholder(lid, x, {}, text=False)

    def layout(self, lid):
        names = self.lnames(lid)
        ext, kinds, selfcall = self.level(lid)
        top = toplevel_blocks(names, kinds)
        self.out.append(f"[{lid}")
        first = True
        for x in names:
            if not first:
                self.out.append(f"|{lid}")
            first = False
            if x in top:
                self.placeholder(lid, x, {})
        self.out.append(f"{lid}]")
        if selfcall:
            self.out.append("~")
            self.call_self(selfcall, {})

    def placeholder(self, lid, x, scope, text=True):
        """the block tag of x as written in template lid, reached with variable scope `scope`."""
        k = self.kind(lid, x)
        if k in FOR_KINDS:
            # "for2": an outer loop that prints its own loop.index around the inner loop
            for on in (range(1, len(OUTER_VALUES) + 1) if k == "for2" else (None,)):
                if on is not None and text:
                    self.out.append(str(on))
                vals = LOOP_VALUES[lid]
                for n, v in enumerate(vals, 1):
                    if text:
                        self.out.append("(")
                    # docs "Block Nesting and Scope": only a scoped block sees the variables of the
                    # enclosing loop -- the loop variable and (docs "For") the special `loop` variable of
                    # THAT loop, wherever in the loop body the block tag sits (directly, inside if / with).
                    # CALIBRATED: an unscoped block tag passes the scope it was reached with on unchanged
                    # (it hides the enclosing template's local variables, it does not strip what an
                    # enclosing scoped block already put into the context).
                    self.block(x, 0, scope if k == "foru" else dict(scope, i=v, loop=(n, len(vals))))
                    if text:
                        self.out.append(")")
            return
        if k == "req":
            st = self.stacks[x]
            if len(st) <= 1:
                raise _Raise("TemplateRuntimeError")
        self.block(x, 0, scope)

    def block(self, x, idx, scope):
        """render definition number idx (0 = most derived) of block x."""
        self.depth += 1
        if self.depth > 40:
            raise _Recursion()
        st = self.stacks[x]
        lid = st[idx]
        k = self.kind(lid, x)
        names = self.lnames(lid)
        i = scope.get("i", "")
        if k == "req":
            self.out.append("  ")  # " {# r #} "
        else:
            self.out.append(f"<{x}{lid}{i}")
            if k == "super":
                self.out.append(":")
                # CALIBRATED: super()/self.x() render their target with the calling block's scope
                if idx + 1 >= len(st):
                    raise _Raise("UndefinedError")
                self.block(x, idx + 1, scope)
            elif k == "ss":
                self.out.append(":")
                if idx + 2 >= len(st):
                    raise _Raise("UndefinedError")
                self.block(x, idx + 2, scope)
            elif k == "self":
                self.out.append(":")
                self.call_self(_next(names, x), scope)
            elif k == "nest":
                self.out.append(":")
                self.placeholder(lid, _next(names, x), scope)
            elif k == "loop":
                self.out.append("#")
                if "loop" not in scope:
                    raise _Raise("UndefinedError")  # attribute of an undefined name
                self.out.append("%d/%d" % scope["loop"])
            elif k in ("selfsuper", "selfss"):
                self.out.append(":")
                self.call_self(_next(names, x), scope)
                self.out.append(":")
                skip = 1 if k == "selfsuper" else 2
                if idx + skip >= len(st):
                    raise _Raise("UndefinedError")
                self.block(x, idx + skip, scope)
            self.out.append(">")
        self.depth -= 1

    def call_self(self, y, scope):
        if y not in self.stacks:
            # a missing attribute is undefined, calling it raises
            raise _Raise("UndefinedError")
        self.block(y, 0, scope)


def expected(case, quirks=()):
    try:
        return _Resolver(case, quirks).run()
    except _Raise as e:
        return ("exc", e.name)
    except _Recursion:
        return RECURSION


def required_unreached(case):
    """Structural predicate: the whole layout renders without error, yet the root's required
    block has no override and its tag is never reached (it is nested in a block that a
    descendant overrides).  R-inh expects TemplateRuntimeError for such a case."""
    r = _Resolver(case, ())
    try:
        r.run()
    except _Raise:
        return r.unreached_required
    except _Recursion:
        return False
    return False
