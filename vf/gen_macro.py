"""C06 — macro signatures, call shapes, source printers and R-bind.

R-bind is the executable binding specification written from
docs/templates.rst "Macros" / "Call" and the statement of property C06.
It never looks at jinja2: a signature and a call are small tuples owned by
this module, printed to Jinja source by `macro_source` / `call_source` and
evaluated directly by `ref_call`.

Signature  = (params, uses, carg)
    params : tuple of (name, default); default is None | ("c", text) |
             ("p", earlier_name) | ("o",)   (outer template variable `o`)
    uses   : frozenset of the special names {"varargs", "kwargs", "caller"}
             that the macro body references
    carg   : 0 | 1 — the body calls `caller()` or `caller('CX')`
Call       = (npos, kws, seq, mp, form)
    npos   : number of literal positional arguments 'p1'..'p5'
    kws    : tuple of keyword names (value 'k_<name>')
    seq    : None | (length, "after"|"before")   `*['s1', ...]` placed after /
             before the keywords
    mp     : None | tuple of names               `**{'n': 'm_<n>', ...}`
    form   : "expr" | "call0" | "callx" | "kwcb"
             {{ m(..) }} | {% call m(..) %} | {% call(x) m(..) %} |
             {{ m(.., caller=cbx) }}
"""
from __future__ import annotations

import itertools

SPECIAL = ("varargs", "kwargs", "caller")
UNDEF = ("<undef>",)          # sentinel of the model
OUTER_AT_CALL = "O2"          # `o` is 'O1' before the macro definition, 'O2' after it
# callv: call-block parameters whose defaults name the parameter itself (outer variable of
# that name absent: x / defined: q) and a later parameter (w=r)
CBV_PARAMS = (("x", ("p", "x")), ("q", ("p", "q")), ("w", ("p", "r")), ("r", ("c", "Dr")))
CB_FORMS = {"call0": (), "callx": (("x", None),), "kwcb": (("x", None),), "callv": CBV_PARAMS}
CB_MACRO = {"call0": "cb0", "callx": "cbx", "kwcb": "cbx", "callv": "cbv"}
OUTER_DEFS = "{% set q = 'OUTq' %}{% set r = 'OUTr' %}"   # outer variables named like parameters q, r


# --------------------------------------------------------------------------
# signatures


def _default_choices(names, i, earlier):
    out = [("c", "D" + names[i]), ("o",)]
    if earlier == "all":
        out += [("p", names[j]) for j in range(i)]
    elif i:
        out.append(("p", names[i - 1]))
    return out


def plain_param_lists(nmax, names="abcd", max_defaults=3, earlier="all"):
    """all parameter lists a,b,c,d with n<=nmax, trailing k<=3 defaults of every kind
    (earlier="all": a default may name any earlier parameter; "prev": the one before it)."""
    for n in range(nmax + 1):
        ns = list(names[:n])
        for k in range(min(n, max_defaults) + 1):
            idx = list(range(n - k, n))
            for combo in itertools.product(*[_default_choices(ns, i, earlier) for i in idx]):
                params = [(ns[i], None) for i in range(n - k)]
                params += [(ns[i], d) for i, d in zip(idx, combo)]
                yield tuple(params)


EXPLICIT_PARAM_LISTS = [
    (("caller", None),),
    (("a", None), ("caller", None)),
    (("caller", None), ("a", None)),
    (("caller", ("c", "Dcaller")),),
    (("a", None), ("caller", ("c", "Dcaller"))),
    (("a", None), ("caller", ("p", "a"))),
    (("a", None), ("caller", ("o",))),
    (("varargs", None),),
    (("a", None), ("varargs", None)),
    (("varargs", None), ("a", None)),
    (("a", None), ("varargs", ("c", "Dvarargs"))),
    (("kwargs", None),),
    (("a", None), ("kwargs", None)),
    (("kwargs", None), ("a", None)),
    (("a", None), ("kwargs", ("c", "Dkwargs"))),
    (("varargs", None), ("kwargs", None)),
    (("a", None), ("varargs", None), ("kwargs", None), ("caller", ("c", "Dcaller"))),
]

# defaults that name the parameter itself or a later parameter; q and r also exist as outer
# template variables (OUTER_DEFS), a b c do not
SELFREF_PARAM_LISTS = [
    (("a", ("p", "a")),),
    (("q", ("p", "q")),),
    (("a", None), ("b", ("p", "b"))),
    (("a", None), ("q", ("p", "q"))),
    (("a", ("p", "b")), ("b", ("c", "Db"))),
    (("q", ("p", "r")), ("r", ("c", "Dr"))),
    (("a", ("p", "b")), ("b", ("p", "a"))),
    (("q", ("p", "r")), ("r", ("p", "q"))),
    (("a", ("p", "a")), ("b", ("p", "a"))),
    (("q", ("p", "q")), ("r", ("o",))),
    (("a", ("p", "c")), ("b", ("c", "Db")), ("c", ("p", "b"))),
    (("q", ("p", "q")), ("a", ("p", "r")), ("r", ("p", "r"))),
]

# parameter named like a Python keyword (the docs' own example uses `class`)
PYKW_PARAM_LISTS = [
    (("class", None),),
    (("a", None), ("class", None)),
    (("class", None), ("a", None)),
    (("class", ("c", "Dclass")),),
    (("a", None), ("class", ("p", "a"))),
    (("a", None), ("class", ("o",))),
]


def bodies():
    """every subset of the special names, caller invoked with 0 or 1 argument."""
    for r in range(4):
        for sub in itertools.combinations(SPECIAL, r):
            if "caller" in sub:
                yield frozenset(sub), 0
                yield frozenset(sub), 1
            else:
                yield frozenset(sub), 0


def signatures(param_lists):
    for params in param_lists:
        for uses, carg in bodies():
            yield (params, uses, carg)


# --------------------------------------------------------------------------
# calls


FULL_SEQS = ((0, "after"), (1, "after"), (2, "after"), (1, "before"))
QUICK_SEQS = ((2, "after"), (1, "before"))


def calls_for(params, max_pos=5, max_kw=4, forms=("expr", "call0", "callx", "kwcb"),
              seqs=FULL_SEQS, maps=True, empty_map=True):
    names = [n for n, _ in params] + ["z"]
    kw_sets = []
    for r in range(min(max_kw, len(names)) + 1):
        kw_sets += list(itertools.combinations(names, r))
    for npos in range(max_pos + 1):
        for kws in kw_sets:
            seq_opts = [None]
            seq_opts += [q for q in seqs if q[1] == "after" or kws]
            map_opts = [None]
            if maps:
                cand = [(), ("y",)] if empty_map else [("y",)]
                if params:
                    cand.append((params[-1][0],))
                if kws:
                    cand.append((kws[0],))          # collides with an explicit keyword
                for c in cand:
                    if c not in map_opts:
                        map_opts.append(c)
            for seq in seq_opts:
                for mp in map_opts:
                    for form in forms:
                        if form != "expr" and "caller" in kws:
                            continue  # literal duplicate keyword: C01 / F12, not here
                        yield (npos, kws, seq, mp, form)


def call_has_map_collision(call):
    npos, kws, seq, mp, form = call
    if not mp:
        return False
    explicit = set(kws)
    if form != "expr":
        explicit.add("caller")
    return any(n in explicit for n in mp)


# --------------------------------------------------------------------------
# printers

_P_ORD = "{n}={{{{ {n} if {n} is defined else 'UNDEF' }}}};"
_P_VAR = "V={{ varargs if varargs is defined else 'UNDEF' }};"
_P_KW = ("K={% if kwargs is mapping %}{% for k, v in kwargs|dictsort %}{{ k }}:{{ v if v is string else 'OBJ' }},"
         "{% endfor %}{% else %}{{ kwargs if kwargs is defined else 'UNDEF' }}{% endif %};")
_P_CAL = ("C={{% if caller is not defined %}}NOCALLER{{% elif caller is callable %}}{{{{ caller({arg}) }}}}"
          "{{% else %}}{{{{ caller }}}}{{% endif %}};")
CB0_BODY = "[cb]"
CBX_BODY = "[x={{ x if x is defined else 'UNDEF' }}]"
CBV_BODY = "[" + "".join(_P_ORD.format(n=n) for n, _ in CBV_PARAMS) + "]"


def default_source(d):
    if d[0] == "c":
        return repr(d[1])
    if d[0] == "p":
        return d[1]
    return "o"


def sig_source(params):
    return ", ".join(n if d is None else f"{n}={default_source(d)}" for n, d in params)


def body_source(sig):
    params, uses, carg = sig
    out = []
    for n, _ in params:
        if n not in SPECIAL:
            out.append(_P_ORD.format(n=n))
    if "varargs" in uses:
        out.append(_P_VAR)
    if "kwargs" in uses:
        out.append(_P_KW)
    if "caller" in uses:
        out.append(_P_CAL.format(arg="'CX'" if carg else ""))
    return "".join(out)


def macro_source(sig):
    """template that defines m plus the helper macros used as callers from Python."""
    return (OUTER_DEFS + "{% set o = 'O1' %}{% macro m(" + sig_source(sig[0]) + ") %}" + body_source(sig) + "{% endmacro %}"
            "{% macro cb0() %}" + CB0_BODY + "{% endmacro %}{% macro cbx(x) %}" + CBX_BODY + "{% endmacro %}"
            "{% macro cbv(" + sig_source(CBV_PARAMS) + ") %}" + CBV_BODY + "{% endmacro %}"
            "{% set o = 'O2' %}")


def args_source(call):
    npos, kws, seq, mp, form = call
    parts = [repr("p%d" % (i + 1)) for i in range(npos)]
    kwparts = [f"{n}={('k_' + n)!r}" for n in kws]
    if form == "kwcb":
        kwparts.append("caller=cbx")
    star = None
    if seq is not None:
        star = "*[" + ", ".join(repr("s%d" % (i + 1)) for i in range(seq[0])) + "]"
    if star and seq[1] == "before":
        parts.append(star)
        parts += kwparts
    else:
        parts += kwparts
        if star:
            parts.append(star)
    if mp is not None:
        parts.append("**{" + ", ".join(f"{n!r}: {('m_' + n)!r}" for n in mp) + "}")
    return ", ".join(parts)


def call_source(call):
    form = call[4]
    a = args_source(call)
    if form in ("expr", "kwcb"):
        return "{{ m(" + a + ") }}"
    if form == "call0":
        return "{% call m(" + a + ") %}" + CB0_BODY + "{% endcall %}"
    if form == "callv":
        return "{% call(" + sig_source(CBV_PARAMS) + ") m(" + a + ") %}" + CBV_BODY + "{% endcall %}"
    return "{% call(x) m(" + a + ") %}" + CBX_BODY + "{% endcall %}"


def python_args(call):
    """(args, [(name, value) keyword pairs in order], caller form or None) for the Python route."""
    npos, kws, seq, mp, form = call
    pos = ["p%d" % (i + 1) for i in range(npos)]
    if seq is not None:
        pos += ["s%d" % (i + 1) for i in range(seq[0])]
    kw = [(n, "k_" + n) for n in kws]
    return pos, kw, ([(n, "m_" + n) for n in mp] if mp is not None else None), (form if form != "expr" else None)


# --------------------------------------------------------------------------
# R-bind


class BindError(Exception):
    """the documented TypeError of a macro call."""


def compile_error(sig):
    """explicit `caller` parameter that the body uses and that has no default
    is rejected when the template is compiled (TemplateAssertionError)."""
    params, uses, _ = sig
    return any(n == "caller" and d is None for n, d in params) and "caller" in uses


def _bind(params, uses, pos, kw):
    """-> dict name -> value for every parameter and every implicit special name.

    docs: positional arguments fill the parameters in order; more positional
    arguments than parameters end up in `varargs`; keywords fill the remaining
    parameters by name; all unconsumed keyword arguments are stored in
    `kwargs`; a macro that does not access varargs/kwargs does not accept
    extra positional/keyword arguments (TypeError); `caller` is the call
    block if there is one."""
    names = [n for n, _ in params]
    implicit = {s for s in uses if s not in names}
    kw = dict(kw)
    env = {}
    for n, v in zip(names, pos):
        env[n] = v
    extra = tuple(pos[len(names):])
    for n in names[len(pos):]:
        if n in kw:
            env[n] = kw.pop(n)
    if "caller" in implicit:
        # CALIBRATED: a call block hands its body over as the keyword argument
        # `caller`; a macro that does not access `caller` sees an ordinary
        # unconsumed keyword (-> kwargs, or TypeError without kwargs).
        env["caller"] = kw.pop("caller", UNDEF)
    if kw and "kwargs" not in implicit:
        raise BindError("unexpected keyword")
    if extra and "varargs" not in implicit:
        raise BindError("too many positional")
    if "kwargs" in implicit:
        env["kwargs"] = kw
    if "varargs" in implicit:
        env["varargs"] = extra
    # defaults are evaluated at call time, left to right, seeing earlier parameters
    for n, d in params:
        if n in env:
            continue
        if d is None:
            env[n] = UNDEF
        elif d[0] == "c":
            env[n] = d[1]
        elif d[0] == "p":
            # an earlier parameter has its value by now.  CALIBRATED: the parameter itself and later
            # parameters are local names from the start of the call — still undefined here unless the
            # caller supplied the later one — and an outer variable of that name is never consulted.
            env[n] = env.get(d[1], UNDEF)
        else:
            env[n] = OUTER_AT_CALL
    return env


def _show(v):
    return "UNDEF" if v is UNDEF else v


def _call_cb(cb, args):
    params = cb[1]
    env = _bind(params, frozenset(), list(args), {})
    if not params:
        return CB0_BODY
    return "[" + "".join(f"{n}={_show(env[n])};" if len(params) > 1 else f"{n}={_show(env[n])}" for n, _ in params) + "]"


def _render_body(sig, env):
    params, uses, carg = sig
    out = []
    for n, _ in params:
        if n not in SPECIAL:
            out.append(f"{n}={_show(env[n])};")
    if "varargs" in uses:
        v = env["varargs"]
        out.append("V=" + (repr(v) if isinstance(v, tuple) and v is not UNDEF else _show(v)) + ";")
    if "kwargs" in uses:
        v = env["kwargs"]
        if isinstance(v, dict):
            s = "".join(f"{k}:{x if isinstance(x, str) else 'OBJ'}," for k, x in sorted(v.items()))
        else:
            s = _show(v)
        out.append("K=" + s + ";")
    if "caller" in uses:
        v = env["caller"]
        if v is UNDEF:
            s = "NOCALLER"
        elif isinstance(v, tuple) and v[0] == "cb":
            s = _call_cb(v, ["CX"] if carg else [])
        else:
            s = v
        out.append("C=" + s + ";")
    return "".join(out)


def ref_call(sig, call):
    """-> ("ok", text) | ("exc", "TypeError")   (signature assumed to compile)."""
    npos, kws, seq, mp, form = call
    pos = ["p%d" % (i + 1) for i in range(npos)]
    if seq is not None:
        pos += ["s%d" % (i + 1) for i in range(seq[0])]
    kw = {n: "k_" + n for n in kws}
    if form != "expr":
        kw["caller"] = ("cb", CB_FORMS[form])
    try:
        if mp is not None:
            for n in mp:
                if n in kw:
                    # the same keyword given twice (explicitly and through **map)
                    raise BindError("multiple values for keyword")
                kw[n] = "m_" + n
        env = _bind(sig[0], sig[1], pos, kw)
        return ("ok", _render_body(sig, env))
    except BindError:
        return ("exc", "TypeError")


# --------------------------------------------------------------------------
# family "site": the same call written in every kind of enclosing frame.
# docs ("Macros", "Call"): what a call binds does not depend on where in the
# template the call is written, so R-bind's answer is the same at every site.

SITES = (
    ("top", "", ""),
    ("if", "{% if true %}", "{% endif %}"),
    ("for", "{% for i_ in [0] %}", "{% endfor %}"),
    ("block", "{% block main %}", "{% endblock %}"),
    ("block_if", "{% block main %}{% if true %}", "{% endif %}{% endblock %}"),
    ("block_for", "{% block main %}{% for i_ in [0] %}", "{% endfor %}{% endblock %}"),
    ("for_block", "{% for i_ in [0] %}{% block main %}", "{% endblock %}{% endfor %}"),
    ("block_with", "{% block main %}{% with w_ = 1 %}", "{% endwith %}{% endblock %}"),
    ("with", "{% with w_ = 1 %}", "{% endwith %}"),
    ("setblock", "{% set s_ %}", "{% endset %}{{ s_ }}"),
    ("filter", "{% filter string %}", "{% endfilter %}"),
    ("autoescape", "{% autoescape false %}", "{% endautoescape %}"),
    ("macro", "{% macro o_() %}", "{% endmacro %}{{ o_() }}"),
    ("callbody", "{% macro w_() %}{{ caller() }}{% endmacro %}{% call w_() %}", "{% endcall %}"),
)
SITE_WRAP = {n: (a, b) for n, a, b in SITES}


def site_param_lists(quick):
    if quick:
        return [(), (("a", None),), (("a", None), ("b", ("c", "Db")))]
    return list(plain_param_lists(2))


def site_calls(params, quick):
    return list(calls_for(params, max_pos=2, max_kw=1 if quick else 2,
                          seqs=() if quick else ((1, "after"),), empty_map=False))


def site_source(site, csrc):
    a, b = SITE_WRAP[site]
    return a + csrc + b


# --------------------------------------------------------------------------
# family "mutdef": list/dict valued defaults, bodies that mutate the bound value,
# histories of several calls of the same macro object.
# docs / C06: an unfilled parameter takes its default *evaluated at call time*, so
# every call that leaves the parameter out starts from a fresh value.
#
# msig  = tuple of (name, default source), name "acc" (list) / "seen" (dict); the
#         macro is m(x, <msig>)
# hist  = tuple of calls; call = tuple of bool per parameter of msig: True = the
#         argument is passed explicitly (a fresh literal), False = left out

MUT_DEFAULTS = {
    "acc": ("[]", "['i']", "[x]", "[o]"),
    "seen": ("{}", "{'i': 'I'}", "{x: 'X'}"),
}
MUT_EXPLICIT = {"acc": "['e']", "seen": "{'e': 'E'}"}


def mut_signatures():
    for d in MUT_DEFAULTS["acc"]:
        yield (("acc", d),)
    for d in MUT_DEFAULTS["seen"]:
        yield (("seen", d),)
    for d1 in MUT_DEFAULTS["acc"]:
        for d2 in MUT_DEFAULTS["seen"]:
            yield (("acc", d1), ("seen", d2))


def mut_histories(msig, hmax):
    one = list(itertools.product((False, True), repeat=len(msig)))
    for h in range(1, hmax + 1):
        yield from itertools.product(one, repeat=h)


def mut_is_constant(dsrc):
    return "x" not in dsrc and "o" not in dsrc


def mut_body_source(msig):
    out = []
    for n, _ in msig:
        out.append("{{ acc.append(x) or '' }}" if n == "acc" else "{{ seen.update({x: 'S'}) or '' }}")
    for n, _ in msig:
        out.append("A={{ acc|join(',') }};" if n == "acc"
                   else "S={% for k, v in seen|dictsort %}{{ k }}:{{ v }},{% endfor %};")
    return "".join(out)


def mut_params_source(msig):
    return "x" + "".join(f", {n}={d}" for n, d in msig)


def mut_macro_source(msig):
    return ("{% set o = 'O1' %}{% macro m(" + mut_params_source(msig) + ") %}" + mut_body_source(msig)
            + "{% endmacro %}{% set o = 'O2' %}")


def mut_args_source(msig, i, call):
    return repr("v%d" % (i + 1)) + "".join(f", {n}={MUT_EXPLICIT[n]}" for (n, _), e in zip(msig, call) if e)


def mut_python_kwargs(msig, call):
    return {n: (["e"] if n == "acc" else {"e": "E"}) for (n, _), e in zip(msig, call) if e}


def mut_source(msig, hist, route):
    """route: inline | loop | callblock   (python is driven by the check itself)"""
    if route == "inline":
        return mut_macro_source(msig) + "|".join(
            "{{ m(" + mut_args_source(msig, i, c) + ") }}" for i, c in enumerate(hist))
    if route == "loop":
        vals = ", ".join(repr("v%d" % (i + 1)) for i in range(len(hist)))
        return (mut_macro_source(msig) + "{% for v_ in [" + vals + "] %}{{ m(v_) }}"
                "{% if not loop.last %}|{% endif %}{% endfor %}")
    drv = "|".join("{{ caller(" + mut_args_source(msig, i, c) + ") }}" for i, c in enumerate(hist))
    return ("{% set o = 'O1' %}{% macro drv() %}" + drv + "{% endmacro %}{% set o = 'O2' %}"
            "{% call(" + mut_params_source(msig) + ") drv() %}" + mut_body_source(msig) + "{% endcall %}")


def _mut_default(dsrc, x):
    return {"[]": lambda: [], "['i']": lambda: ["i"], "[x]": lambda: [x], "[o]": lambda: [OUTER_AT_CALL],
            "{}": lambda: {}, "{'i': 'I'}": lambda: {"i": "I"}, "{x: 'X'}": lambda: {x: "X"}}[dsrc]()


def mut_ref(msig, hist):
    """every call builds its arguments and defaults afresh (call-time evaluation)."""
    outs = []
    for i, call in enumerate(hist):
        x = "v%d" % (i + 1)
        vals = {}
        for (n, d), explicit in zip(msig, call):
            if explicit:
                vals[n] = ["e"] if n == "acc" else {"e": "E"}
            else:
                vals[n] = _mut_default(d, x)
        for n, _ in msig:
            if n == "acc":
                vals[n].append(x)
            else:
                vals[n][x] = "S"
        s = ""
        for n, _ in msig:
            if n == "acc":
                s += "A=" + ",".join(vals[n]) + ";"
            else:
                s += "S=" + "".join(f"{k}:{v}," for k, v in sorted(vals[n].items())) + ";"
        outs.append(s)
    return ("ok", "|".join(outs))
