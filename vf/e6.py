"""E6 — owner of `set` iteration order.

`ChoiceSet` replaces the builtin `set` inside jinja2.idtracking, jinja2.compiler,
jinja2.ext (the modules whose sets feed code generation) and jinja2.filters /
tests / utils / optimizer / parser (whose results reach the generated source
when a constant expression is folded at compile time).  Every iteration
over a ChoiceSet with >= 2 elements is a choice point; the explorer decides in
which order the elements come out.  Default answer = sorted order; a
deviation = any other order from the menu (all permutations for <= 4
elements, rotations and the reversal for larger sets).  This decides hash-seed
independence for every order a seed could produce instead of sampling seeds.
"""
from __future__ import annotations

import itertools


class Oracle:
    def __init__(self):
        self.choices = {}
        self.points = []  # number of menu entries at each choice point

    def reset(self, choices=None):
        self.choices = dict(choices or {})
        self.points = []


ORACLE = Oracle()


def menu(items):
    n = len(items)
    if n <= 4:
        return list(itertools.permutations(items))
    out = [tuple(items)]
    for r in range(1, n):
        out.append(tuple(items[r:] + items[:r]))
    out.append(tuple(reversed(items)))
    return out


class ChoiceSet(set):
    def __iter__(self):
        items = sorted(set.__iter__(self), key=repr)
        if len(items) < 2:
            return iter(items)
        i = len(ORACLE.points)
        m = menu(items)
        ORACLE.points.append(len(m))
        return iter(m[ORACLE.choices.get(i, 0) % len(m)])

    # operations that would fall back to a plain set
    def copy(self):
        return ChoiceSet(set.copy(self))

    def _wrap(name):  # noqa: N805
        def f(self, *a):
            r = getattr(set, name)(self, *a)
            return ChoiceSet(r) if type(r) is set else r

        f.__name__ = name
        return f

    for _n in ("__or__", "__and__", "__sub__", "__xor__", "__ror__", "__rand__", "__rsub__", "__rxor__",
               "union", "intersection", "difference", "symmetric_difference"):
        locals()[_n] = _wrap(_n)
    del _n, _wrap


def install():
    import jinja2.compiler
    import jinja2.ext
    import jinja2.filters
    import jinja2.idtracking
    import jinja2.optimizer
    import jinja2.parser
    import jinja2.tests
    import jinja2.utils

    # compiler/ext/idtracking generate code; filters/tests/utils run at compile time when the optimizer folds a
    # constant expression, and their result is written into the generated source
    for m in (jinja2.compiler, jinja2.ext, jinja2.idtracking, jinja2.filters, jinja2.tests, jinja2.utils,
              jinja2.optimizer, jinja2.parser):
        m.set = ChoiceSet


def explore(compile_fn, bound):
    """compile_fn() -> str, run under ORACLE.  Returns (sources:set, runs, points_default)."""
    ORACLE.reset()
    base = compile_fn()
    pts0 = list(ORACLE.points)
    sources = {base: ()}
    runs = 1

    def rec(choices, start, pts, depth):
        nonlocal runs
        for i in range(start, len(pts)):
            for alt in range(1, pts[i]):
                ch = dict(choices)
                ch[i] = alt
                ORACLE.reset(ch)
                src = compile_fn()
                runs += 1
                sources.setdefault(src, tuple(sorted(ch.items())))
                if depth + 1 < bound:
                    rec(ch, i + 1, list(ORACLE.points), depth + 1)

    if bound >= 1:
        rec({}, 0, pts0, 0)
    return sources, runs, pts0
