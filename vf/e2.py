"""E2 — explicit-state search over the real implementation by history replay.

A state is the operation history reaching it.  `system()` builds a fresh
(impl, model) pair; `step(sys, op)` applies one operation to both and returns
(impl_observation, model_observation); `canon(sys)` / `absm(sys)` give the
canonical state of the implementation and the model's abstraction of it.

BFS with a seen-set of canonical states runs to a fixpoint (or depth cap).
Every transition is executed on the implementation in lock-step with the
model.  When a history reaches an already-seen canonical state, up to
`merge_reps` such alternative representatives per state are *merge-checked*:
every operation is executed from the new representative too and must give the
same observation and the same successor canon as from the first one (one-step
bisimulation), so a too-coarse canon is a harness error instead of a silent
hole.
"""
from __future__ import annotations

import collections


class MergeError(Exception):
    pass


class Result:
    def __init__(self):
        self.states = 0
        self.transitions = 0
        self.merges_validated = 0
        self.max_depth = 0
        self.fixpoint = False
        self.violations = []  # (kind, history, op, impl_obs, model_obs)
        self.sample_histories = []
        self.obs_kinds = set()


def explore(system, ops, step, canon, absm=None, depth_cap=None, merge_reps=1,
            max_violations=20, state_cap=None):
    """ops may be a list or a callable(sys)->list (enabled operations)."""
    res = Result()

    def build(hist):
        s = system()
        for op in hist:
            step(s, op)
        return s

    def enabled(s):
        return ops(s) if callable(ops) else ops

    s0 = build(())
    c0 = canon(s0)
    if absm is not None and absm(s0) != c0:
        res.violations.append(("state", (), None, c0, absm(s0)))
    seen = {c0: ()}
    succ = {}  # canon -> {op: (obs, canon')}
    nreps = collections.Counter()
    frontier = collections.deque([()])
    while frontier:
        hist = frontier.popleft()
        res.max_depth = max(res.max_depth, len(hist))
        if depth_cap is not None and len(hist) >= depth_cap:
            continue
        here = canon(build(hist))
        table = succ.setdefault(here, {})
        if len(res.violations) >= max_violations:
            break
        for op in enabled(build(hist)):
            s = build(hist)
            iobs, mobs = step(s, op)
            res.transitions += 1
            res.obs_kinds.add((op[0] if isinstance(op, tuple) else op, _kind(iobs)))
            if iobs != mobs and len(res.violations) < max_violations:
                res.violations.append(("obs", hist, op, iobs, mobs))
            c = canon(s)
            if absm is not None:
                a = absm(s)
                if a != c and len(res.violations) < max_violations:
                    res.violations.append(("state", hist, op, c, a))
            table[op] = (iobs, c)
            if c not in seen:
                if state_cap is not None and len(seen) >= state_cap:
                    continue
                seen[c] = hist + (op,)
                frontier.append(hist + (op,))
                if len(res.sample_histories) < 4 and len(hist) >= 2:
                    res.sample_histories.append([_j(o) for o in hist + (op,)])
            elif seen[c] != hist + (op,) and nreps[c] < merge_reps and not res.violations:
                # (once the implementation has left the model the state space is the mutant's, not the model's:
                # merge checks are only meaningful while implementation and model agree)
                # merge check: alternative representative of state c
                nreps[c] += 1
                rep1, rep2 = seen[c], hist + (op,)
                ops1 = enabled(build(rep1))
                ops2 = enabled(build(rep2))
                if list(ops1) != list(ops2):
                    raise MergeError(f"enabled ops differ for merged state {c!r}: {rep1} vs {rep2}")
                for o in ops1:
                    a1 = build(rep1)
                    o1, m1 = step(a1, o)
                    a2 = build(rep2)
                    o2, m2 = step(a2, o)
                    # a disagreement with the reference model from the alternative representative is a
                    # violation of the property (found through a path the seen-set would have pruned),
                    # not a defect of the canonical form
                    bad = False
                    for rep, ob, mb, sy in ((rep1, o1, m1, a1), (rep2, o2, m2, a2)):
                        if ob != mb:
                            res.violations.append(("obs", rep, o, ob, mb))
                            bad = True
                        elif absm is not None and canon(sy) != absm(sy):
                            res.violations.append(("state", rep, o, canon(sy), absm(sy)))
                            bad = True
                    if bad:
                        break
                    if o1 != o2 or canon(a1) != canon(a2):
                        raise MergeError(
                            f"canon too coarse: {rep1} and {rep2} merge to {c!r} but op {o} "
                            f"gives {o1!r}/{canon(a1)!r} vs {o2!r}/{canon(a2)!r}"
                        )
                    res.merges_validated += 1
    res.states = len(seen)
    res.fixpoint = depth_cap is None or res.max_depth < depth_cap
    return res


def _kind(obs):
    if isinstance(obs, tuple) and obs and obs[0] == "exc":
        return obs[1]
    return type(obs).__name__


def _j(o):
    return list(o) if isinstance(o, tuple) else o


def enumerate_histories(system, ops, step, depth, prefix_shard=None):
    """Dedup-free enumeration of all histories up to `depth` (cross-check of
    the merge argument).  Yields (history, impl_obs, model_obs) for each
    mismatch; returns count via generator protocol `.count` attribute emulation."""
    count = 0
    bad = []

    def rec(hist):
        nonlocal count
        if len(hist) >= depth:
            return
        for op in ops:
            s = system()
            for o in hist:
                step(s, o)
            iobs, mobs = step(s, op)
            count += 1
            if iobs != mobs and len(bad) < 10:
                bad.append((hist, op, iobs, mobs))
            rec(hist + (op,))

    if prefix_shard is None:
        rec(())
    else:
        # run the prefix first (its own steps are counted by the shard that owns the shorter prefix)
        rec(tuple(prefix_shard))
    return count, bad
