"""E4 — hand-driven coroutine scheduler ("virtual loop" without asyncio).

Jinja's async code never touches asyncio itself, so render_async()/generate_async()
coroutines can be driven with send()/throw().  Data functions suspend through
`Gate`, whose __await__ yields the gate object to the driver; the driver owns
what happens at every suspension: resume, throw CancelledError, stop consuming.

Async generators are tracked with sys.set_asyncgen_hooks: `firstiter` records
every generator that starts iterating; "closed" means `ag_frame is None`.
"""
from __future__ import annotations

import gc
import sys
import warnings


class Gate:
    """awaitable that suspends to the driver once and then returns `value`."""

    __slots__ = ("label", "value", "exc")

    def __init__(self, label, value=None, exc=None):
        self.label = label
        self.value = value
        self.exc = exc

    def __await__(self):
        got = yield self
        if self.exc is not None:
            raise self.exc
        return self.value if got is None else got


class Cancelled(BaseException):
    """stand-in for asyncio.CancelledError (a BaseException, like the real one)."""


class AgenTracker:
    """records async generators through the interpreter's asyncgen hooks."""

    def __init__(self):
        self.started = []
        self.finalized = []
        self._old = None

    def __enter__(self):
        self._old = sys.get_asyncgen_hooks()
        sys.set_asyncgen_hooks(firstiter=self._first, finalizer=self._final)
        return self

    def __exit__(self, *a):
        sys.set_asyncgen_hooks(*self._old)

    def _first(self, agen):
        self.started.append(agen)

    def _final(self, agen):
        # the interpreter found a started generator that nobody closed
        self.finalized.append((agen.ag_code.co_filename, agen.ag_code.co_name))
        try:
            agen.aclose().send(None)
        except (StopIteration, StopAsyncIteration, RuntimeError, GeneratorExit):
            pass
        except BaseException:
            pass

    def open_generators(self):
        return [g for g in self.started if g.ag_frame is not None]


class Drive:
    """one driven coroutine/awaitable; step() advances to the next suspension."""

    def __init__(self, aw):
        self.it = aw.__await__() if not hasattr(aw, "send") else aw
        self.done = False
        self.result = None
        self.exc = None
        self.suspensions = 0
        self.at = None  # gate the coroutine is waiting on

    def _run(self, fn, *a):
        try:
            g = fn(*a)
        except StopIteration as e:
            self.done = True
            self.result = e.value
            self.at = None
            return None
        except BaseException as e:  # noqa: BLE001 - the oracle judges
            self.done = True
            self.exc = e
            self.at = None
            return None
        self.suspensions += 1
        self.at = g
        return g

    def step(self, value=None):
        return self._run(self.it.send, value)

    def throw(self, exc):
        return self._run(self.it.throw, exc)

    def run_to_end(self, limit=100000):
        n = 0
        while not self.done:
            self.step()
            n += 1
            if n > limit:
                raise RuntimeError("driver: coroutine did not finish")
        return self


def run(aw):
    """drive an awaitable to completion (all gates released in order)."""
    d = Drive(aw).run_to_end()
    if d.exc is not None:
        raise d.exc
    return d.result


def interleavings(counts):
    """all interleavings (as tuples of task indices) of tasks that need
    counts[i] steps each — the schedules of gate releases."""
    total = sum(counts)
    out = []

    def rec(prefix, left):
        if len(prefix) == total:
            out.append(tuple(prefix))
            return
        for i, c in enumerate(left):
            if c:
                left[i] -= 1
                prefix.append(i)
                rec(prefix, left)
                prefix.pop()
                left[i] += 1

    rec([], list(counts))
    return out


class Observation:
    """what one controlled execution left behind"""

    def __init__(self):
        self.result = None
        self.exc = None
        self.open = []  # (filename, name) of generators still open at the end
        self.finalized = []
        self.warnings = []
        self.suspensions = 0
        self.chunks = 0


def observe(make, mode, k=None, classify=None):
    """make() -> (kind, obj): kind 'coro' (an awaitable to drive) or 'agen' (an
    async generator consumed chunk by chunk).  mode: 'complete', ('cancel', k)
    via k, 'close' (consumer stops after k chunks), .  Returns Observation."""
    ob = Observation()
    gc.collect()
    with warnings.catch_warnings(record=True) as wlist, AgenTracker() as tr:
        warnings.simplefilter("always")
        kind, obj = make()
        try:
            if kind == "coro":
                d = Drive(obj)
                while not d.done:
                    if mode == "cancel" and d.suspensions == k and not getattr(d, "_thrown", False):
                        d._thrown = True
                        d.throw(Cancelled())
                        continue
                    d.step()
                ob.result, ob.exc, ob.suspensions = d.result, d.exc, d.suspensions
            else:
                agen = obj
                chunks = []
                susp = 0
                thrown = False
                while True:
                    if mode == "close" and len(chunks) == k:
                        c = Drive(agen.aclose()).run_to_end()
                        ob.exc = c.exc
                        break
                    d = Drive(agen.__anext__())
                    while not d.done:
                        if mode == "cancel" and susp == k and not thrown:
                            thrown = True
                            d.throw(Cancelled())
                            continue
                        d.step()
                        if not d.done:
                            susp += 1
                    if isinstance(d.exc, StopAsyncIteration):
                        break
                    if d.exc is not None:
                        ob.exc = d.exc
                        break
                    chunks.append(d.result)
                ob.result = "".join(map(str, chunks))
                ob.chunks = len(chunks)
                ob.suspensions = susp
                del agen
        finally:
            obj = None
        # the property speaks about the moment the render's task finishes:
        # look before any garbage collection helps
        ob.open = [(g.ag_code.co_filename, g.ag_code.co_name) for g in tr.open_generators()]
        tr.started.clear()
        gc.collect()
        ob.finalized = list(tr.finalized)
        ob.warnings = [(w.category.__name__, str(w.message)) for w in wlist]
    return ob


class TaskRun:
    """result of one controlled multi-task execution"""

    def __init__(self):
        self.points = []   # number of enabled tasks at each choice point
        self.choices = []  # index into the enabled list taken there
        self.order = []    # task id stepped at every step (the schedule)
        self.results = {}
        self.errors = {}


def run_tasks(coros, prefix=()):
    """step the given coroutines one suspension at a time; at every point
    where more than one task is unfinished the next task is a choice
    (prefix[i], then 0 = lowest task id)."""
    x = TaskRun()
    drives = [Drive(c) for c in coros]
    while True:
        en = [i for i, d in enumerate(drives) if not d.done]
        if not en:
            break
        if len(en) > 1:
            k = len(x.points)
            c = prefix[k] if k < len(prefix) else 0
            if c >= len(en):
                raise RuntimeError(f"replay divergence: choice {c} of {en} at point {k}")
            x.points.append(len(en))
            x.choices.append(c)
            t = en[c]
        else:
            t = en[0]
        x.order.append(t)
        drives[t].step()
    for i, d in enumerate(drives):
        if d.exc is not None:
            x.errors[i] = d.exc
        else:
            x.results[i] = d.result
    return x


def explore_tasks(make_run, on_execution, max_runs=None):
    """enumerate every interleaving: make_run(prefix) -> TaskRun on a fresh system."""
    stack = [()]
    n = 0
    while stack:
        prefix = stack.pop()
        x = make_run(prefix)
        n += 1
        on_execution(x)
        if max_runs is not None and n >= max_runs:
            return n, True
        for i in range(len(prefix), len(x.points)):
            for alt in range(1, x.points[i]):
                stack.append(tuple(x.choices[:i]) + (alt,))
    return n, False
