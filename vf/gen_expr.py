"""Expression mini-language shared by C02 / C08 / C20 (engine E1, model R-expr).

Four independent pieces, none of which imports jinja2:

* an **AST** of our own (plain tuples, first element is the node kind);
* a **printer** `to_src(ast)` to Jinja source that emits *minimal*
  parentheses according to the precedence table below, so that a precedence or
  associativity slip in Jinja's parser changes the value of the printed string;
* a **Pratt parser** `parse_flat(tokens)` over the same table for flat
  operator strings ``a op b op c`` (the expected tree of a flat string comes
  from here, not from the printer run backwards);
* the **reference evaluator** `Ev` (R-expr): boring Python over the AST with
  Jinja's documented deviations from Python.

Also: the form menu + indexed shape enumerator (`ShapeSpace`, count/unrank) and
leaf vectors used to fill shapes.

Rules taken from docs/templates.rst ("Expressions", "Variables",
"List of builtin filters/tests"): operators behave like Python's; `/` is true
division, `//` floor division, `~` converts operands to strings and
concatenates, `**` chains are evaluated LEFT to right, `and`/`or` return an
operand, `not` returns a bool, the inline `if` without `else` evaluates to an
undefined object, `foo.bar` looks up the attribute then the item, `foo['bar']`
the item then the attribute, missing things are undefined; an undefined value
prints as the empty string, is false and iterable (empty) and fails for every
other operation.

Rules the documentation is silent about were read off the pinned tree once and
are tagged `# CALIBRATED` (they are listed in `CALIBRATED_RULES` and copied
into the evidence assumptions).
"""
from __future__ import annotations

import re

from markupsafe import Markup

CALIBRATED_RULES = [
    "binary `~` binds tighter than `+ -` and looser than `* / // %`",
    "unary `-`/`+` bind tighter than `**` (`-2**2` == 4) and tighter than filters/tests (`-1|abs` == 1)",
    "filters and tests bind tighter than every binary operator; a test cannot be the direct target of another test",
    "an argument-less test directly followed by a name token (`if`, `in`, `not in`) swallows it as its argument, so the "
    "printer parenthesises such a test (`(x is defined) if c else d`); the bare test argument form `is t arg` takes only a "
    "primary+postfix expression not starting with `(`",
    "`//` is Python floor division (docs say 'truncated'), `%` is Python modulo",
    "Undefined: `==`/`!=` do not fail (two undefineds are equal), `len()` is 0, `in` sees an empty iterable; operations "
    "outside the listed dunders (abs()) give Python's own TypeError",
    "`upper` keeps Markup-ness; `int` lets UndefinedError through; `first` of an empty iterable is undefined",
    "call arguments are evaluated positional, *args, keyword, **kwargs",
    "a slice `a[i:j:k]` subscripts the object directly (TypeError/KeyError propagate) instead of the item-then-attribute-"
    "then-undefined lookup the docs describe for `a[b]`",
    "`sameas` on equal str/float/tuple/large-int operands is left unspecified (CPython constant identity)",
]

# --------------------------------------------------------------------------
# AST constructors.  Nodes are tuples; kinds:
#   int float str true false none name list tuple dict
#   bin(op,l,r)  un(op,e)  not(e)  and(l,r)  or(l,r)  cmp(first,((op,e),...))
#   cond(test,then,else|None)  attr(e,name)  item(e,arg)  iitem(e,n)
#   slice(e,start|None,stop|None,step|None)
#   call(f,args,kwargs,dyn_args|None,dyn_kwargs|None)
#   filter(e,name,args,kwargs)  test(e,name,args,negated,bare)


def Int(n):
    return ("int", n)


def Float(x):
    return ("float", x)


def Str(s):
    return ("str", s)


TRUE = ("true",)
FALSE = ("false",)
NONE = ("none",)


def Name(n):
    return ("name", n)


def List(*items):
    return ("list", tuple(items))


def Tuple(*items):
    return ("tuple", tuple(items))


def Dict(*pairs):
    return ("dict", tuple(pairs))


def Bin(op, l, r):
    return ("bin", op, l, r)


def Un(op, e):
    return ("un", op, e)


def Not(e):
    return ("not", e)


def And(l, r):
    return ("and", l, r)


def Or(l, r):
    return ("or", l, r)


def Cmp(first, *rest):
    return ("cmp", first, tuple(rest))


def Cond(test, then, else_=None):
    return ("cond", test, then, else_)


def Attr(e, name):
    return ("attr", e, name)


def Item(e, arg):
    return ("item", e, arg)


def IItem(e, n):
    return ("iitem", e, n)


def Slice(e, start=None, stop=None, step=None):
    return ("slice", e, start, stop, step)


def Call(f, args=(), kwargs=(), dyn_args=None, dyn_kwargs=None):
    return ("call", f, tuple(args), tuple(kwargs), dyn_args, dyn_kwargs)


def Filter(e, name, args=(), kwargs=()):
    return ("filter", e, name, tuple(args), tuple(kwargs))


def Test(e, name, args=(), negated=False, bare=False):
    return ("test", e, name, tuple(args), negated, bare)


ARITH_OPS = ("+", "-", "*", "/", "//", "%", "**")
CMP_OPS = ("==", "!=", "<", "<=", ">", ">=", "in", "notin")
CMP_SRC = {"==": "==", "!=": "!=", "<": "<", "<=": "<=", ">": ">", ">=": ">=", "in": "in", "notin": "not in"}

# --------------------------------------------------------------------------
# precedence table (loosest first).  Python's table with Jinja's deviations.

(L_COND, L_OR, L_AND, L_NOT, L_CMP, L_ADD, L_CAT, L_MUL, L_POW, L_UN, L_FT, L_POST, L_ATOM) = range(13)

BIN_LEVEL = {
    "+": L_ADD, "-": L_ADD,
    "~": L_CAT,  # CALIBRATED: between additive and multiplicative
    "*": L_MUL, "/": L_MUL, "//": L_MUL, "%": L_MUL,
    "**": L_POW,  # documented: left associative, like every other binary operator here
}

_ATOM_KINDS = {"int", "float", "str", "true", "false", "none", "name", "list", "tuple", "dict"}


def _q(s):
    assert '"' not in s and "\\" not in s and "\n" not in s, s
    return '"' + s + '"'


def _emit(node, minlvl, name_follows=False, ctx=None):
    text, lvl, open_r = _pr(node)
    need = lvl < minlvl or (name_follows and open_r)
    if ctx == "unary" and lvl == L_FT:
        need = True  # CALIBRATED: -x|f is (-x)|f
    elif ctx == "test_target" and node[0] == "test":
        need = True  # CALIBRATED: tests cannot be chained
    elif ctx == "post" and node[0] == "int":
        need = True  # lexical: `1.0` is a float, `1.k` is confusing
    if need:
        return "(" + text + ")", False
    return text, open_r


def _args_src(args, kwargs, dyn_args=None, dyn_kwargs=None):
    parts = [_emit(a, L_COND)[0] for a in args]
    if dyn_args is not None:
        parts.append("*" + _emit(dyn_args, L_COND)[0])
    parts += [k + "=" + _emit(v, L_COND)[0] for k, v in kwargs]
    if dyn_kwargs is not None:
        parts.append("**" + _emit(dyn_kwargs, L_COND)[0])
    return "(" + ", ".join(parts) + ")"


def bare_ok(arg):
    """may `arg` be written as a parenthesis-less test argument?"""
    n = arg
    while n[0] in ("attr", "item", "iitem", "slice", "call"):
        n = n[1]
    return n[0] in ("int", "float", "str", "true", "false", "none", "name", "list", "dict") and not (
        n[0] == "int" and n is not arg
    )


def _pr(node):
    """-> (text, level, open_right).  open_right: text ends with an
    argument-less test name (which would swallow a following name token)."""
    k = node[0]
    if k == "int":
        assert node[1] >= 0
        return str(node[1]), L_ATOM, False
    if k == "float":
        assert node[1] >= 0
        return repr(node[1]), L_ATOM, False
    if k == "str":
        return _q(node[1]), L_ATOM, False
    if k in ("true", "false", "none"):
        return k, L_ATOM, False
    if k == "name":
        return node[1], L_ATOM, False
    if k == "list":
        return "[" + ", ".join(_emit(i, L_COND)[0] for i in node[1]) + "]", L_ATOM, False
    if k == "tuple":
        items = [_emit(i, L_COND)[0] for i in node[1]]
        if len(items) == 1:
            return "(" + items[0] + ",)", L_ATOM, False
        return "(" + ", ".join(items) + ")", L_ATOM, False
    if k == "dict":
        return "{" + ", ".join(_emit(a, L_COND)[0] + ": " + _emit(b, L_COND)[0] for a, b in node[1]) + "}", L_ATOM, False
    if k == "bin":
        lvl = BIN_LEVEL[node[1]]
        lt, _ = _emit(node[2], lvl)
        rt, ro = _emit(node[3], lvl + 1)
        return lt + " " + node[1] + " " + rt, lvl, ro
    if k == "un":
        t, _ = _emit(node[2], L_UN, ctx="unary")
        return node[1] + t, L_UN, False
    if k == "not":
        t, o = _emit(node[1], L_NOT)
        return "not " + t, L_NOT, o
    if k == "and":
        lt, _ = _emit(node[1], L_AND)
        rt, ro = _emit(node[2], L_NOT)
        return lt + " and " + rt, L_AND, ro
    if k == "or":
        lt, _ = _emit(node[1], L_OR)
        rt, ro = _emit(node[2], L_AND)
        return lt + " or " + rt, L_OR, ro
    if k == "cmp":
        ops = node[2]
        t, o = _emit(node[1], L_ADD, name_follows=ops[0][0] in ("in", "notin"))
        out = [t]
        for i, (op, e) in enumerate(ops):
            nf = i + 1 < len(ops) and ops[i + 1][0] in ("in", "notin")
            t, o = _emit(e, L_ADD, name_follows=nf)
            out.append(CMP_SRC[op])
            out.append(t)
        return " ".join(out), L_CMP, o
    if k == "cond":
        at, _ = _emit(node[2], L_OR, name_follows=True)
        tt, to = _emit(node[1], L_OR)
        if node[3] is None:
            return at + " if " + tt, L_COND, to
        bt, bo = _emit(node[3], L_COND)
        return at + " if " + tt + " else " + bt, L_COND, bo
    if k == "attr":
        t, _ = _emit(node[1], L_POST, ctx="post")
        return t + "." + node[2], L_POST, False
    if k == "iitem":
        t, _ = _emit(node[1], L_POST, ctx="post")
        return t + "." + str(node[2]), L_POST, False
    if k == "item":
        t, _ = _emit(node[1], L_POST)
        return t + "[" + _emit(node[2], L_COND)[0] + "]", L_POST, False
    if k == "slice":
        t, _ = _emit(node[1], L_POST)
        a, b, c = node[2], node[3], node[4]
        s = (_emit(a, L_COND)[0] if a is not None else "") + ":" + (_emit(b, L_COND)[0] if b is not None else "")
        if c is not None:
            s += ":" + _emit(c, L_COND)[0]
        return t + "[" + s + "]", L_POST, False
    if k == "call":
        t, _ = _emit(node[1], L_POST)
        return t + _args_src(node[2], node[3], node[4], node[5]), L_POST, False
    if k == "filter":
        t, _ = _emit(node[1], L_UN)  # CALIBRATED: a unary is a legal filter target
        s = t + "|" + node[2]
        if node[3] or node[4]:
            s += _args_src(node[3], node[4])
        return s, L_FT, False
    if k == "test":
        t, _ = _emit(node[1], L_UN, ctx="test_target")
        s = t + " is " + ("not " if node[4] else "") + node[2]
        args = node[3]
        if node[5] and len(args) == 1 and bare_ok(args[0]):
            return s + " " + _emit(args[0], L_POST)[0], L_FT, False
        if args:
            return s + _args_src(args, ()), L_FT, False
        return s, L_FT, True
    raise AssertionError(node)


def to_src(node) -> str:
    return _pr(node)[0]


# --------------------------------------------------------------------------
# Pratt parser for flat operator strings.  tokens: list of items, each either
# ("atom", ast) | ("op", "+") | ("pre", "-"|"+"|"not").

FLAT_LEVEL = dict(BIN_LEVEL)
FLAT_LEVEL.update({op: L_CMP for op in CMP_OPS})
FLAT_LEVEL.update({"and": L_AND, "or": L_OR})


def parse_flat(tokens):
    pos = [0]

    def peek():
        return tokens[pos[0]] if pos[0] < len(tokens) else None

    def unary():
        t = peek()
        if t[0] == "pre" and t[1] in "+-":
            pos[0] += 1
            return Un(t[1], unary())  # CALIBRATED: tighter than **
        assert t[0] == "atom", t
        pos[0] += 1
        return t[1]

    def expr(minlvl):
        t = peek()
        if t[0] == "pre" and t[1] == "not":
            assert minlvl <= L_NOT
            pos[0] += 1
            left = Not(expr(L_NOT))
        else:
            left = unary()
        while True:
            t = peek()
            if t is None:
                return left
            assert t[0] == "op"
            lvl = FLAT_LEVEL[t[1]]
            if lvl < minlvl:
                return left
            if lvl == L_CMP:
                ops = []
                while True:
                    t = peek()
                    if t is None or t[0] != "op" or FLAT_LEVEL[t[1]] != L_CMP:
                        break
                    pos[0] += 1
                    ops.append((t[1], expr(L_ADD)))
                left = ("cmp", left, tuple(ops))
                continue
            pos[0] += 1
            right = expr(lvl + 1)  # every binary operator is left associative (incl. **, documented)
            if t[1] == "and":
                left = And(left, right)
            elif t[1] == "or":
                left = Or(left, right)
            else:
                left = Bin(t[1], left, right)

    e = expr(L_OR)
    assert pos[0] == len(tokens)
    return e


def flat_src(tokens):
    out = []
    glue = ""
    for t in tokens:
        if t[0] == "atom":
            out.append(glue + to_src(t[1]))
            glue = ""
        elif t[0] == "op":
            out.append(CMP_SRC.get(t[1], t[1]))
        elif t[1] == "not":
            out.append("not")
        else:
            glue += t[1]
    return " ".join(out)


def all_bracketings(atoms, ops):
    """every binary tree over the operand sequence (comparisons as plain
    binary nodes) - used to pick operand tuples on which different parse trees
    give different values."""
    def mk(op, l, r):
        if op == "and":
            return And(l, r)
        if op == "or":
            return Or(l, r)
        if op in CMP_OPS:
            return Cmp(l, (op, r))
        return Bin(op, l, r)

    def rec(i, j):
        if i == j:
            return [atoms[i]]
        out = []
        for k in range(i, j):
            for l in rec(i, k):
                for r in rec(k + 1, j):
                    out.append(mk(ops[k], l, r))
        return out

    return rec(0, len(atoms) - 1)


# --------------------------------------------------------------------------
# reference values


class RUndefinedError(Exception):
    pass


class RSecurityError(Exception):
    """stand-in for jinja2.sandbox.SecurityError (the 'unsafe' undefined of the sandbox raises it)."""


class RUndefined:
    """Stand-in for the default undefined: printable, iterable, false; any
    other operation fails (docs/api.rst, class docstring)."""

    __slots__ = ("why", "exc")

    def __init__(self, why="", exc=RUndefinedError):
        self.why = why
        self.exc = exc

    def _fail(self, *a, **k):
        raise self.exc(self.why)

    def __getattr__(self, name):
        if name[:2] == "__" and name[-2:] == "__":
            raise AttributeError(name)
        raise self.exc(self.why)

    __add__ = __radd__ = __sub__ = __rsub__ = __mul__ = __rmul__ = _fail
    __truediv__ = __rtruediv__ = __floordiv__ = __rfloordiv__ = __mod__ = __rmod__ = _fail
    __pow__ = __rpow__ = __pos__ = __neg__ = __call__ = __getitem__ = _fail
    __lt__ = __le__ = __gt__ = __ge__ = __int__ = __float__ = __complex__ = _fail

    def __eq__(self, other):  # CALIBRATED
        return type(self) is type(other)

    def __ne__(self, other):  # CALIBRATED
        return not self.__eq__(other)

    def __hash__(self):
        return 7

    def __str__(self):
        return ""

    def __repr__(self):
        return "Undefined"

    def __len__(self):  # CALIBRATED
        return 0

    def __iter__(self):
        return iter(())

    def __bool__(self):
        return False


class Unspecified(Exception):
    """the model does not define this case (skipped by the oracle)."""


class TooBig(Exception):
    """operand sizes outside the bounded domain (skipped, counted)."""


def is_undef(v):
    return isinstance(v, RUndefined) or type(v).__name__ in ("Undefined", "ChainableUndefined", "StrictUndefined")


_ADDR = re.compile(r" at 0x[0-9a-fA-F]+")


def norm_text(s):
    return _ADDR.sub(" at 0x?", s)


def canon(v, depth=0):
    """(type, value) signature of a result, free of addresses."""
    if is_undef(v):
        return ("Undefined",)
    t = type(v)
    if v is None or t is bool or t is int or t is float or t is complex:
        return (t.__name__, repr(v))
    if t is str:
        # a str value may embed the default repr of an object (e.g. `x ~ d.items` concatenates the text of a
        # bound method): addresses are not part of the semantics
        return ("str", norm_text(v))
    if t is Markup:
        return ("Markup", norm_text(str.__str__(v)))
    if depth > 6:
        return (t.__name__, "...")
    if t is list or t is tuple:
        return (t.__name__, tuple(canon(i, depth + 1) for i in v))
    if t is dict:
        return ("dict", tuple((canon(a, depth + 1), canon(b, depth + 1)) for a, b in v.items()))
    if t.__name__ in ("dict_items", "dict_keys", "dict_values"):
        return (t.__name__, tuple(canon(i, depth + 1) for i in v))
    if t.__name__ in ("builtin_function_or_method", "method", "method-wrapper", "function"):
        return (t.__name__, getattr(v, "__name__", "?"))
    return (t.__name__, norm_text(repr(v)))


def exc_name(e):
    n = type(e).__name__
    return {"RUndefinedError": "UndefinedError", "RSecurityError": "SecurityError"}.get(n, n)


# --- data objects (deterministic repr, no addresses)


class Probe:
    """attribute k and item "k" hold different values; attribute-only `a`,
    item-only "i"; a method `m` echoing its arguments."""

    k = "attr-k"
    a = "attr-a"
    _p = "private-attr"  # a real attribute with a leading underscore: blocked by the sandbox

    def __getitem__(self, key):
        if key == "k":
            return "item-k"
        if key == "i":
            return "item-i"
        if key == "_i":
            return "item-_i"  # an ITEM with a leading underscore: not an attribute, never blocked
        raise KeyError(key)

    def m(self, *args, **kwargs):
        return ("m", args, tuple(sorted(kwargs.items())))

    def __repr__(self):
        return "<o>"


class EchoFn:
    def __call__(self, *args, **kwargs):
        return ("f", args, tuple(sorted(kwargs.items())))

    def __repr__(self):
        return "<f>"


def make_data(i):
    """the three data assignments (fresh objects every call)."""
    base = {"o": Probe(), "d": {"items": "I", "k": "dk"}, "f": EchoFn(), "du": {"_id": 7, "__x": 8, "k": 1}}
    if i == 0:
        base.update(x=2, y=3)
    elif i == 1:
        base.update(x="ab", y=[1, 2])
    else:
        base.update(x=-2, y=Markup("<i>"))
    return base  # `u` is never bound


N_DATA = 3

# --- filters and tests (docs/templates.rst "List of Builtin Filters/Tests")


def _f_default(value, default_value="", boolean=False):
    if is_undef(value) or (boolean and not value):
        return default_value
    return value


def _f_upper(s):
    return (s if isinstance(s, str) else str(s)).upper()  # CALIBRATED: Markup stays Markup


def _f_first(seq):
    for item in seq:
        return item
    return RUndefined("No first item, sequence was empty.")


def _f_join(value, d="", attribute=None):
    if attribute is not None:
        raise Unspecified("join(attribute=)")
    return str(d).join([str(i) for i in value])  # autoescape off


def _f_int(value, default=0, base=10):
    try:
        if isinstance(value, str):
            return int(value, base)
        return int(value)
    except (TypeError, ValueError):
        try:
            return int(float(value))
        except (TypeError, ValueError):
            return default


def _f_length(*a, **k):
    return len(*a, **k)


def _f_abs(*a, **k):
    return abs(*a, **k)


def _f_list(value):
    return list(value)


def _f_attr(obj, name):
    """foo|attr("bar"): the attribute only, never the item (docs)."""
    try:
        return getattr(obj, name)
    except AttributeError:
        return RUndefined(name)


R_FILTERS = {"attr": _f_attr, "default": _f_default, "d": _f_default, "length": _f_length, "upper": _f_upper, "first": _f_first,
             "join": _f_join, "abs": _f_abs, "int": _f_int, "list": _f_list}

_SMALL_INT = range(-5, 257)


def _fragile_identity(v):
    return isinstance(v, (str, float, tuple, complex, bytes, frozenset)) or (type(v) is int and v not in _SMALL_INT)


def _t_sameas_guard(value, other):
    # CALIBRATED: identity of equal immutable values is a CPython constant-pool accident
    if _fragile_identity(value) and _fragile_identity(other) and type(value) is type(other) and value == other:
        raise Unspecified("sameas on equal immutables")
    return value is other


R_TESTS = {
    "defined": lambda v: not is_undef(v),
    "undefined": lambda v: is_undef(v),
    "none": lambda v: v is None,
    "odd": lambda v: v % 2 == 1,
    "even": lambda v: v % 2 == 0,
    "in": lambda v, seq: v in seq,
    "sameas": _t_sameas_guard,
    "divisibleby": lambda v, num: v % num == 0,
    "eq": lambda a, b: a == b,
    "true": lambda v: v is True,
    "callable": lambda v: callable(v),
    "mapping": lambda v: isinstance(v, dict),
    "string": lambda v: isinstance(v, str),
}


def _pow(a, b):
    if type(a) in (int, bool) and type(b) in (int, bool):
        if abs(b) > 64 or abs(a) > 10 ** 6:
            raise TooBig()
    return a ** b


def _mul(a, b):
    for n, s in ((a, b), (b, a)):
        if type(n) in (int, bool) and isinstance(s, (str, list, tuple)) and n * max(1, len(s)) > 10 ** 5:
            raise TooBig()
    return a * b


_BINOPS = {
    "+": lambda a, b: a + b, "-": lambda a, b: a - b, "*": _mul,
    "/": lambda a, b: a / b,
    "//": lambda a, b: a // b,  # CALIBRATED: floor, not truncation
    "%": lambda a, b: a % b, "**": _pow,
}
_CMPS = {
    "==": lambda a, b: a == b, "!=": lambda a, b: a != b, "<": lambda a, b: a < b, "<=": lambda a, b: a <= b,
    ">": lambda a, b: a > b, ">=": lambda a, b: a >= b, "in": lambda a, b: a in b, "notin": lambda a, b: a not in b,
}


class Ev:
    """R-expr.  `hook_bin(op, l, r)` / `hook_un(op, v)` replace the operators
    listed in `intercepted` (C20); `autoescape` selects the `~` flavour."""

    def __init__(self, data, intercepted=frozenset(), hook_bin=None, hook_un=None, autoescape=False, sandbox=False):
        self.data = data
        self.sandbox = sandbox  # docs/sandbox.rst: attributes starting with an underscore are not accessible
        self.intercepted = intercepted
        self.hook_bin = hook_bin
        self.hook_un = hook_un
        self.autoescape = autoescape

    def ev(self, n):
        k = n[0]
        if k == "int" or k == "float" or k == "str":
            return n[1]
        if k == "true":
            return True
        if k == "false":
            return False
        if k == "none":
            return None
        if k == "name":
            try:
                return self.data[n[1]]
            except KeyError:
                return RUndefined(n[1])
        if k == "list":
            return [self.ev(i) for i in n[1]]
        if k == "tuple":
            return tuple([self.ev(i) for i in n[1]])
        if k == "dict":
            return {self.ev(a): self.ev(b) for a, b in n[1]}
        if k == "bin":
            op = n[1]
            l = self.ev(n[2])
            r = self.ev(n[3])
            if op == "~":
                if self.autoescape:
                    return self._markup_join(l, r)
                return str(l) + str(r)
            if ("b" + op) in self.intercepted:
                return self.hook_bin(op, l, r)
            return _BINOPS[op](l, r)
        if k == "un":
            v = self.ev(n[2])
            if ("u" + n[1]) in self.intercepted:
                return self.hook_un(n[1], v)
            return -v if n[1] == "-" else +v
        if k == "not":
            return not self.ev(n[1])
        if k == "and":
            l = self.ev(n[1])
            return self.ev(n[2]) if l else l
        if k == "or":
            l = self.ev(n[1])
            return l if l else self.ev(n[2])
        if k == "cmp":
            value = self.ev(n[1])
            result = value
            for op, e in n[2]:
                new = self.ev(e)
                result = _CMPS[op](value, new)
                if not result:
                    return result
                value = new
            return result
        if k == "cond":
            if self.ev(n[1]):
                return self.ev(n[2])
            if n[3] is None:
                return RUndefined("inline if without else")
            return self.ev(n[3])
        if k == "attr":
            return self.getattr(self.ev(n[1]), n[2])
        if k == "item":
            return self.getitem(self.ev(n[1]), self.ev(n[2]))
        if k == "iitem":
            return self.getitem(self.ev(n[1]), n[2])
        if k == "slice":
            obj = self.ev(n[1])
            a = None if n[2] is None else self.ev(n[2])
            b = None if n[3] is None else self.ev(n[3])
            c = None if n[4] is None else self.ev(n[4])
            return obj[slice(a, b, c)]  # CALIBRATED: no undefined fallback for slices
        if k == "call":
            f = self.ev(n[1])
            args = [self.ev(a) for a in n[2]]
            if n[4] is not None:  # CALIBRATED order: positional, *args, keywords, **kwargs
                args.extend(self.ev(n[4]))
            kwargs = {}
            for name, v in n[3]:
                kwargs[name] = self.ev(v)
            if n[5] is not None:
                extra = self.ev(n[5])
                return f(*args, **kwargs, **extra)
            return f(*args, **kwargs)
        if k == "filter":
            v = self.ev(n[1])
            args = [self.ev(a) for a in n[3]]
            kwargs = {name: self.ev(a) for name, a in n[4]}
            if n[2] == "attr" and len(args) == 1 and not kwargs and isinstance(args[0], str):
                return self.attr_only(v, args[0])
            return R_FILTERS[n[2]](v, *args, **kwargs)
        if k == "test":
            v = self.ev(n[1])
            args = [self.ev(a) for a in n[3]]
            r = R_TESTS[n[2]](v, *args)
            return (not r) if n[4] else r
        raise AssertionError(n)

    @staticmethod
    def _markup_join(l, r):
        parts = [p if isinstance(p, str) else str(p) for p in (l, r)]
        if any(hasattr(p, "__html__") for p in parts):
            return Markup("").join(parts)
        return "".join(parts)

    def _guard(self, obj, name, value):
        """the sandbox restricts ATTRIBUTES (never items): private names give the 'unsafe' undefined."""
        if self.sandbox and name.startswith("_"):
            return RUndefined("access to attribute %r is unsafe" % name, RSecurityError)
        return value

    def getattr(self, obj, name):
        """foo.bar: attribute, then item, then undefined."""
        try:
            value = getattr(obj, name)
        except AttributeError:
            pass
        else:
            return self._guard(obj, name, value)
        try:
            return obj[name]
        except (TypeError, LookupError, AttributeError):
            return RUndefined(name)

    def getitem(self, obj, arg):
        """foo['bar']: item, then attribute, then undefined."""
        try:
            return obj[arg]
        except (TypeError, LookupError, AttributeError):
            if isinstance(arg, str):
                try:
                    value = getattr(obj, arg)
                except AttributeError:
                    pass
                else:
                    return self._guard(obj, arg, value)
            return RUndefined(repr(arg))

    def attr_only(self, obj, name):
        """foo|attr("bar"): the attribute only, never the item."""
        try:
            value = getattr(obj, name)
        except AttributeError:
            return RUndefined(name)
        return self._guard(obj, name, value)


def reference(node, data, **kw):
    """-> ("ok", canon(value), str(value)) | ("exc", class name) | ("skip", why)."""
    try:
        v = Ev(data, **kw).ev(node)
        return ("ok", canon(v), norm_text(str(v)))
    except (Unspecified, TooBig) as e:
        return ("skip", type(e).__name__)
    except RecursionError:
        return ("skip", "RecursionError")
    except Exception as e:  # noqa: BLE001
        return ("exc", exc_name(e))


# --------------------------------------------------------------------------
# atoms, forms, shapes

ATOMS = [Int(0), Int(1), Int(2), Int(7), Float(1.5), Str("a"), Str(""), Str("ab"), TRUE, FALSE, NONE,
         List(Int(1), Int(2)), Tuple(), Tuple(Int(1), Int(2)), Dict((Str("a"), Int(1))),
         Name("x"), Name("y"), Name("u"), Name("o"), Name("d"), Name("f")]
ATOMS_SMALL = [Int(1), Int(2), Str("ab"), List(Int(1), Int(2)), Name("x"), Name("y"), Name("u"), NONE]


class Form:
    """an operator form with `arity` expression holes."""

    __slots__ = ("name", "arity", "build", "klass", "pow")

    def __init__(self, name, arity, build, klass):
        self.name = name
        self.arity = arity
        self.build = build
        self.klass = klass
        self.pow = name == "bin:**"

    def __repr__(self):
        return "Form(%s)" % self.name


def _forms():
    F = []

    def add(name, arity, build, klass):
        F.append(Form(name, arity, build, klass))

    for op in ARITH_OPS + ("~",):
        add("bin:" + op, 2, (lambda op: lambda a, b: Bin(op, a, b))(op), "bin")
    for op in CMP_OPS:
        add("cmp:" + op, 2, (lambda op: lambda a, b: Cmp(a, (op, b)))(op), "cmp")
    add("and", 2, And, "logic")
    add("or", 2, Or, "logic")
    add("un:-", 1, lambda a: Un("-", a), "un")
    add("un:+", 1, lambda a: Un("+", a), "un")
    add("not", 1, Not, "un")
    add("cond", 3, lambda a, t, b: Cond(t, a, b), "cond")
    add("cond-", 2, lambda a, t: Cond(t, a, None), "cond")
    for o1 in CMP_OPS:
        for o2 in CMP_OPS:
            add("chain:%s:%s" % (o1, o2), 3, (lambda o1, o2: lambda a, b, c: Cmp(a, (o1, b), (o2, c)))(o1, o2), "chain")
    for nm in ("k", "a", "i", "z", "items", "m"):
        add("attr:" + nm, 1, (lambda nm: lambda a: Attr(a, nm))(nm), "attr")
    for key in ("k", "a", "i", "z", "items"):
        add("item:" + key, 1, (lambda key: lambda a: Item(a, Str(key)))(key), "item")
    for n in (0, 1, 5):
        add("item:%d" % n, 1, (lambda n: lambda a: Item(a, Int(n)))(n), "item")
    add("item:-1", 1, lambda a: Item(a, Un("-", Int(1))), "item")
    add("item:e", 2, Item, "item")
    for n in (0, 1, 5):
        add("iitem:%d" % n, 1, (lambda n: lambda a: IItem(a, n))(n), "iitem")
    # slices: every present/absent combination of start/stop/step
    for a in (None, Int(1)):
        for b in (None, Int(2)):
            for c in (None, Int(2)):
                add("slice:%s:%s:%s" % tuple("-" if p is None else to_src(p) for p in (a, b, c)), 1,
                    (lambda a, b, c: lambda e: Slice(e, a, b, c))(a, b, c), "slice")
    add("slice:rev", 1, lambda e: Slice(e, None, None, Un("-", Int(1))), "slice")
    add("slice:e:e", 3, lambda e, a, b: Slice(e, a, b, None), "slice")
    add("slice:::e", 2, lambda e, c: Slice(e, None, None, c), "slice")
    # calls
    l12 = List(Int(1), Int(2))
    da = Dict((Str("a"), Int(1)))
    add("call:()", 1, lambda f: Call(f), "call")
    add("call:(1)", 1, lambda f: Call(f, (Int(1),)), "call")
    add("call:(1,2)", 1, lambda f: Call(f, (Int(1), Int(2))), "call")
    add("call:(a=1)", 1, lambda f: Call(f, (), (("a", Int(1)),)), "call")
    add("call:(1,a=2)", 1, lambda f: Call(f, (Int(1),), (("a", Int(2)),)), "call")
    add("call:(*l)", 1, lambda f: Call(f, (), (), l12), "call")
    add("call:(**d)", 1, lambda f: Call(f, (), (), None, da), "call")
    add("call:full", 1, lambda f: Call(f, (Int(1),), (("b", Int(3)),), List(Int(2)), da), "call")
    add("call:dup", 1, lambda f: Call(f, (), (("a", Int(3)),), None, da), "call")
    add("call:(e)", 2, lambda f, a: Call(f, (a,)), "call")
    add("call:(a=e)", 2, lambda f, a: Call(f, (), (("a", a),)), "call")
    add("call:(*e)", 2, lambda f, a: Call(f, (), (), a), "call")
    add("call:(**e)", 2, lambda f, a: Call(f, (), (), None, a), "call")
    add("call:m()", 1, lambda o: Call(Attr(o, "m")), "call")
    add("call:m(e,a=e)", 3, lambda o, a, b: Call(Attr(o, "m"), (a,), (("a", b),)), "call")
    add("call:items()", 1, lambda o: Call(Attr(o, "items")), "call")
    # filters
    for nm in ("default", "length", "upper", "first", "join", "abs", "int", "list"):
        add("f:" + nm, 1, (lambda nm: lambda a: Filter(a, nm))(nm), "filter")
    add("f:default(z)", 1, lambda a: Filter(a, "default", (Str("z"),)), "filter")
    add("f:default(z,true)", 1, lambda a: Filter(a, "default", (Str("z"), TRUE)), "filter")
    add("f:default(kw)", 1, lambda a: Filter(a, "default", (), (("boolean", TRUE), ("default_value", Int(9)))), "filter")
    add("f:join(-)", 1, lambda a: Filter(a, "join", (Str("-"),)), "filter")
    add("f:int(7)", 1, lambda a: Filter(a, "int", (Int(7),)), "filter")
    add("f:int(0,2)", 1, lambda a: Filter(a, "int", (Int(0), Int(2))), "filter")
    add("f:length(1)", 1, lambda a: Filter(a, "length", (Int(1),)), "filter")
    add("f:default(e)", 2, lambda a, b: Filter(a, "default", (b,)), "filter")
    add("f:default(e,true)", 2, lambda a, b: Filter(a, "default", (b, TRUE)), "filter")
    add("f:join(e)", 2, lambda a, b: Filter(a, "join", (b,)), "filter")
    add("f:int(e)", 2, lambda a, b: Filter(a, "int", (b,)), "filter")
    # tests
    for neg in (False, True):
        sfx = "!" if neg else ""
        for nm in ("defined", "none", "odd", "even"):
            add("t:" + nm + sfx, 1, (lambda nm, neg: lambda a: Test(a, nm, (), neg))(nm, neg), "test")
        for nm in ("in", "sameas", "divisibleby"):
            add("t:%s%s bare" % (nm, sfx), 2, (lambda nm, neg: lambda a, b: Test(a, nm, (b,), neg, True))(nm, neg), "test")
            add("t:%s%s paren" % (nm, sfx), 2, (lambda nm, neg: lambda a, b: Test(a, nm, (b,), neg, False))(nm, neg), "test")
        add("t:divisibleby%s 2" % sfx, 1, (lambda neg: lambda a: Test(a, "divisibleby", (Int(2),), neg, True))(neg), "test")
        add("t:divisibleby%s(0)" % sfx, 1, (lambda neg: lambda a: Test(a, "divisibleby", (Int(0),), neg, False))(neg), "test")
        add("t:sameas%s none" % sfx, 1, (lambda neg: lambda a: Test(a, "sameas", (NONE,), neg, True))(neg), "test")
        add("t:odd%s(1)" % sfx, 1, (lambda neg: lambda a: Test(a, "odd", (Int(1),), neg, False))(neg), "test")
    # containers
    add("list1", 1, lambda a: List(a), "lit")
    add("list2", 2, lambda a, b: List(a, b), "lit")
    add("tuple1", 1, lambda a: Tuple(a), "lit")
    add("tuple2", 2, lambda a, b: Tuple(a, b), "lit")
    add("dictv", 1, lambda a: Dict((Str("a"), a)), "lit")
    add("dictkv", 2, lambda a, b: Dict((a, b)), "lit")
    return F


FORMS = _forms()
FORM_BY_NAME = {f.name: f for f in FORMS}
# one or two representatives per syntactic class / precedence level
REP_NAMES = ["bin:+", "bin:-", "bin:*", "bin:/", "bin:**", "bin:~", "cmp:==", "cmp:<", "cmp:in", "cmp:notin", "and", "or",
             "un:-", "not", "cond", "cond-", "chain:<:<", "chain:==:in", "attr:k", "attr:m", "item:k", "item:e", "iitem:0",
             "slice:1:-:-", "slice:e:e", "call:(1,a=2)", "call:(e)", "call:m()", "f:default(z)", "f:length", "f:upper",
             "f:abs", "f:join(e)", "t:defined", "t:odd!", "t:in bare", "t:divisibleby paren", "t:sameas! bare", "list2",
             "tuple1", "dictv"]
FORMS_REP = [FORM_BY_NAME[n] for n in REP_NAMES]
CHAIN_REPS = ("chain:<:<", "chain:==:in", "chain:in:notin", "chain:<=:>", "chain:!=:==", "chain:notin:<", "chain:>:>=",
              "chain:in:in")
FORMS_FEW_CHAINS = [f for f in FORMS if f.klass != "chain" or f.name in CHAIN_REPS]
REP_SMALL_NAMES = ["bin:+", "bin:*", "bin:**", "bin:~", "cmp:<", "cmp:in", "and", "or", "un:-", "not", "cond", "cond-",
                   "attr:k", "item:k", "call:(e)", "f:default(z)", "f:abs", "t:defined", "t:odd", "t:in bare", "list1"]
FORMS_REP_SMALL = [FORM_BY_NAME[n] for n in REP_SMALL_NAMES]
# operator-only sub-grammar (thorough depth 3)
OPS_NAMES = ["bin:+", "bin:-", "bin:*", "bin:%", "bin:**", "bin:~", "cmp:<", "cmp:in", "and", "or", "un:-", "not"]
FORMS_OPS = [FORM_BY_NAME[n] for n in OPS_NAMES]
OPS3_NAMES = ["bin:+", "bin:*", "bin:**", "cmp:<", "and", "un:-", "not"]
FORMS_OPS3 = [FORM_BY_NAME[n] for n in OPS3_NAMES]

LEAF = None  # a hole in a shape


class ShapeSpace:
    """All operator shapes whose root is drawn from menus[0], whose children
    from menus[1], ... (a hole may also stay a leaf at every level below the
    root).  A shape is `LEAF` or `(form, child_shape, ...)`.  Indexed:
    count() / unrank(i); index order is mixed radix, leaf-first."""

    def __init__(self, menus, max_nonleaf_children=None):
        self.menus = menus
        self.maxnl = max_nonleaf_children
        # size[d] = number of shapes available for a hole at level d (incl. LEAF)
        self.size = [0] * (len(menus) + 1)
        self.size[len(menus)] = 1
        for d in range(len(menus) - 1, 0, -1):
            self.size[d] = 1 + sum(self.size[d + 1] ** f.arity for f in menus[d])
        self._root_sizes = [self._form_count(f, 1) for f in menus[0]]

    def _form_count(self, f, child_level):
        s = self.size[child_level]
        if self.maxnl is None or child_level != 1:
            return s ** f.arity
        # root with at most maxnl non-leaf children
        from math import comb
        return sum(comb(f.arity, j) * (s - 1) ** j for j in range(0, min(self.maxnl, f.arity) + 1))

    def count(self):
        return sum(self._root_sizes)

    def _unrank_hole(self, i, d):
        if i == 0:
            return LEAF
        i -= 1
        for f in self.menus[d]:
            n = self.size[d + 1] ** f.arity
            if i < n:
                kids = []
                for _ in range(f.arity):
                    i, r = divmod(i, self.size[d + 1])
                    kids.append(self._unrank_hole(r, d + 1))
                return (f,) + tuple(kids)
            i -= n
        raise IndexError

    def unrank(self, i):
        for f, n in zip(self.menus[0], self._root_sizes):
            if i < n:
                s = self.size[1]
                if self.maxnl is None or f.arity <= self.maxnl:
                    kids = []
                    for _ in range(f.arity):
                        i, r = divmod(i, s)
                        kids.append(self._unrank_hole(r, 1))
                    return (f,) + tuple(kids)
                # enumerate subsets of holes (by size) that are non-leaf
                import itertools
                for j in range(0, self.maxnl + 1):
                    for holes in itertools.combinations(range(f.arity), j):
                        m = (s - 1) ** j
                        if i < m:
                            kids = [LEAF] * f.arity
                            for h in holes:
                                i, r = divmod(i, s - 1)
                                kids[h] = self._unrank_hole(r + 1, 1)
                            return (f,) + tuple(kids)
                        i -= m
                raise IndexError
            i -= n
        raise IndexError


def shape_holes(shape):
    if shape is LEAF:
        return 1
    return sum(shape_holes(c) for c in shape[1:])


def shape_pows(shape):
    if shape is LEAF:
        return 0
    return (1 if shape[0].pow else 0) + sum(shape_pows(c) for c in shape[1:])


def shape_name(shape):
    if shape is LEAF:
        return "_"
    return shape[0].name + "(" + ",".join(shape_name(c) for c in shape[1:]) + ")"


def fill(shape, leaves, pos=None):
    """build the AST of a shape, taking leaves left to right from `leaves`
    (a sequence, used cyclically)."""
    if pos is None:
        pos = [0]
    if shape is LEAF:
        a = leaves[pos[0] % len(leaves)]
        pos[0] += 1
        return a
    return shape[0].build(*[fill(c, leaves, pos) for c in shape[1:]])


def subnodes(node):
    """[(path, child)] for every expression child of a node, in source order."""
    k = node[0]
    if k in ("int", "float", "str", "true", "false", "none", "name"):
        return []
    if k in ("list", "tuple"):
        return [((1, i), c) for i, c in enumerate(node[1])]
    if k == "dict":
        out = []
        for i, (a, b) in enumerate(node[1]):
            out += [((1, i, 0), a), ((1, i, 1), b)]
        return out
    if k == "bin":
        return [((2,), node[2]), ((3,), node[3])]
    if k == "un":
        return [((2,), node[2])]
    if k == "not":
        return [((1,), node[1])]
    if k in ("and", "or"):
        return [((1,), node[1]), ((2,), node[2])]
    if k == "cmp":
        return [((1,), node[1])] + [((2, i, 1), e) for i, (_, e) in enumerate(node[2])]
    if k == "cond":
        out = [((2,), node[2]), ((1,), node[1])]
        if node[3] is not None:
            out.append(((3,), node[3]))
        return out
    if k in ("attr", "iitem"):
        return [((1,), node[1])]
    if k == "item":
        return [((1,), node[1]), ((2,), node[2])]
    if k == "slice":
        return [((1,), node[1])] + [((i,), node[i]) for i in (2, 3, 4) if node[i] is not None]
    if k == "call":
        out = [((1,), node[1])] + [((2, i), a) for i, a in enumerate(node[2])]
        if node[4] is not None:
            out.append(((4,), node[4]))
        out += [((3, i, 1), v) for i, (_, v) in enumerate(node[3])]
        if node[5] is not None:
            out.append(((5,), node[5]))
        return out
    if k == "filter":
        return [((1,), node[1])] + [((3, i), a) for i, a in enumerate(node[3])] + [
            ((4, i, 1), v) for i, (_, v) in enumerate(node[4])]
    if k == "test":
        return [((1,), node[1])] + [((3, i), a) for i, a in enumerate(node[3])]
    raise AssertionError(node)


def get_at(node, path):
    for i in path:
        node = node[i]
    return node


def replace_at(node, path, new):
    if not path:
        return new
    i = path[0]
    return node[:i] + (replace_at(node[i], path[1:], new),) + node[i + 1:]


def walk(node, path=()):
    """(path, node) for every node, pre-order, source order."""
    yield path, node
    for p, c in subnodes(node):
        yield from walk(c, path + p)


def clamp_for_pow(node, limit):
    """numeric literals > limit -> limit (trees containing `**`)."""
    for path, n in list(walk(node)):
        if n[0] == "int" and n[1] > limit:
            node = replace_at(node, path, ("int", limit))
    return node


def count_pows(node):
    return sum(1 for _, n in walk(node) if n[0] == "bin" and n[1] == "**")


def literal_leaves(node):
    """paths of the literal leaves (int float str true false none)."""
    return [p for p, n in walk(node) if n[0] in ("int", "float", "str", "true", "false", "none")]


def literal_value(node):
    k = node[0]
    if k in ("int", "float", "str"):
        return node[1]
    return {"true": True, "false": False, "none": None}[k]


# leaf vectors (used cyclically, left to right)
LEAF_VECTORS = [
    [Int(2), Int(1), Int(7), Int(0), Int(2)],
    [Name("x"), Name("y"), Int(2), Name("u"), Str("ab")],
    [Str("a"), List(Int(1), Int(2)), Name("x"), Float(1.5), NONE, Name("y")],
    [Name("o"), Name("d"), Str("k"), Name("f"), TRUE, Tuple(Int(1), Int(2)), Str("")],
    [Int(2), Name("x"), Int(1), Name("y"), Int(3)],  # constants and variables mixed (partial folding)
    [Name("x"), Int(2), Name("y"), Int(1), Name("x")],
]
MIXED_VECTORS = (4, 5)
