"""Shared pieces of the sandbox checks (C17, C18, C19).

* ``structural(pysrc)`` -- taint walk over the Python source that
  ``SandboxedEnvironment.compile(src, raw=True)`` produced: every attribute
  access, subscript and call whose base/callee is a *template-controlled value*
  must go through ``environment.getattr`` / ``environment.getitem`` /
  ``environment.call``.
* ``render(env, src, data)`` -- render and classify the outcome.
* ``deep_find`` -- identity search of a forbidden object among recorded values.

Template-controlled value (the taint):  every name the compiler allocates for a
template variable (``l_<depth>_<name>``: context lookups, assignment targets,
loop variables, macro parameters, ``loop``, ``caller``, ``self``, ``super``),
and every value computed from one by a value-returning helper
(``environment.getattr/getitem/call``, ``context.call``, ``resolve``,
``undefined``, filter/test calls ``t_N(...)``, ``str/escape/Markup/concat``,
``auto_await``).  Everything else the generated code touches is runtime
plumbing (``environment``, ``context``, ``t_N`` buffers, templates being
included, ``LoopContext`` ...) and may be accessed directly.
"""
from __future__ import annotations

import ast
import collections
import re

TEMPLATE_NAME = re.compile(r"^l_\d+_")
TMP_NAME = re.compile(r"^t_\d+$")
FOLDED_OBJECT = re.compile(r"<class '|<built-in method |<built-in function |<method-wrapper |<slot wrapper |"
                           r"<bound method |<function |<method '|<attribute '| object at 0x|<member '")

#: names the code generator itself introduces (read off compiler.py: CodeGenerator
#: writes exactly these identifiers besides l_* and t_*)
RUNTIME_NAMES = frozenset(
    """
    environment context missing resolve undefined concat cond_expr_undefined
    parent_template included_template template gen agen event name parent_block blocks debug_info
    caller _loop_vars _block_vars loop reciter loop_render_func depth
    LoopContext AsyncLoopContext Macro Markup Namespace TemplateNotFound TemplateReference TemplateRuntimeError
    Undefined auto_aiter auto_await escape identity internalcode markup_join str_join
    str getattr isinstance len dict tuple list iter range slice
    macro unused root fiter
    """.split()
)

#: helpers whose *result* is a template-controlled value
VALUE_FUNCS = frozenset(
    """
    environment.getattr environment.getitem environment.call environment.call_filter environment.call_test
    environment.call_binop environment.call_unop environment.undefined environment.concat
    context.call context.resolve context.resolve_or_missing context.get context.get_all
    resolve undefined concat cond_expr_undefined auto_await auto_aiter
    str escape Markup markup_join str_join identity getattr dict tuple list iter
    Namespace
    """.split()
)

SANDBOX_GATES = ("environment.getattr", "environment.getitem", "environment.call")


def dotted(node) -> str | None:
    parts = []
    while isinstance(node, ast.Attribute):
        parts.append(node.attr)
        node = node.value
    if isinstance(node, ast.Name):
        parts.append(node.id)
        return ".".join(reversed(parts))
    return None


class _Walk:
    def __init__(self, tree):
        self.tree = tree
        self.viol: list[tuple[str, str]] = []
        self.stats = collections.Counter()
        # `if not isinstance(l_X, Namespace): raise` guards emitted by visit_Assign / visit_AssignBlock:
        # an item store on a template value is accepted only when the guard for that very name stands
        # immediately before the assignment statement in the same statement list
        self.guarded_stores: set[int] = set()
        for n in ast.walk(tree):
            for field in ("body", "orelse", "finalbody"):
                stmts = getattr(n, field, None)
                if not isinstance(stmts, list):
                    continue
                pending: set[str] = set()
                for st in stmts:
                    g = self._guard_name(st)
                    if g is not None:
                        pending.add(g)
                        continue
                    if isinstance(st, ast.Assign) and pending:
                        for tgt in st.targets:
                            for sub in ast.walk(tgt):
                                if (isinstance(sub, ast.Subscript) and isinstance(sub.value, ast.Name)
                                        and sub.value.id in pending):
                                    self.guarded_stores.add(id(sub))
                    pending = set()

    @staticmethod
    def _guard_name(st):
        if isinstance(st, ast.If) and isinstance(st.test, ast.UnaryOp) and isinstance(st.test.op, ast.Not) and not st.orelse:
            c = st.test.operand
            if (isinstance(c, ast.Call) and dotted(c.func) == "isinstance" and len(c.args) == 2
                    and isinstance(c.args[0], ast.Name) and dotted(c.args[1]) == "Namespace"
                    and len(st.body) == 1 and isinstance(st.body[0], ast.Raise)):
                return c.args[0].id
        return None

    def tainted(self, n) -> bool:
        if isinstance(n, ast.Name):
            if TEMPLATE_NAME.match(n.id):
                return True
            if TMP_NAME.match(n.id) or n.id in RUNTIME_NAMES:
                return False
            self.stats["unknown_name:" + n.id] += 1
            return True
        if isinstance(n, ast.Constant):
            return False
        if isinstance(n, (ast.Attribute, ast.Subscript)):
            return self.tainted(n.value)
        if isinstance(n, ast.Await):
            return self.tainted(n.value)
        if isinstance(n, ast.IfExp):
            return self.tainted(n.body) or self.tainted(n.orelse)
        if isinstance(n, ast.Call):
            f = n.func
            if isinstance(f, ast.Name) and TMP_NAME.match(f.id):
                return True  # filter / test result
            d = dotted(f)
            if d is not None and d in VALUE_FUNCS:
                return True
            return self.tainted(f)
        if isinstance(n, ast.NamedExpr):
            return self.tainted(n.value)
        return True  # BinOp, BoolOp, Compare, displays ...: conservative

    def run(self):
        for n in ast.walk(self.tree):
            if isinstance(n, ast.Attribute):
                self.stats["attribute"] += 1
                if self.tainted(n.value):
                    self.viol.append(("attr", ast.unparse(n)[:160]))
            elif isinstance(n, ast.Subscript):
                self.stats["subscript"] += 1
                if self.tainted(n.value):
                    if isinstance(n.slice, ast.Slice) or (
                            isinstance(n.slice, ast.Call) and dotted(n.slice.func) == "slice"):
                        self.stats["slice_exempt"] += 1  # documented: slices bypass getitem
                    elif (isinstance(n.ctx, ast.Store) and id(n) in self.guarded_stores
                          and isinstance(n.slice, ast.Constant) and isinstance(n.slice.value, str)):
                        self.stats["namespace_store"] += 1  # {% set ns.a = .. %} after isinstance(Namespace) guard
                    else:
                        self.viol.append(("subscript", ast.unparse(n)[:160]))
            elif isinstance(n, ast.Constant) and isinstance(n.value, str):
                # a constant the optimizer folded into the code must never be the repr of a python
                # object obtained through an attribute (class, function, bound / builtin method ...)
                if FOLDED_OBJECT.search(n.value):
                    self.viol.append(("folded-object-repr", repr(n.value)[:160]))
            elif isinstance(n, ast.Call):
                d = dotted(n.func)
                if d in SANDBOX_GATES:
                    self.stats[d] += 1
                if d == "context.call":
                    # sandboxed code must call template values through environment.call
                    if len(n.args) >= 1 and self.tainted(n.args[0]):
                        self.viol.append(("context.call", ast.unparse(n)[:160]))
                elif d in ("getattr", "setattr", "delattr", "hasattr"):
                    if n.args and self.tainted(n.args[0]):
                        self.viol.append(("builtin-" + d, ast.unparse(n)[:160]))
                    elif (len(n.args) >= 2 and isinstance(n.args[1], ast.Constant) and isinstance(n.args[1].value, str)
                          and n.args[1].value.startswith("_")):
                        # {% from x import name %} compiles to a bare getattr on the module object:
                        # it must never be emitted for a private name
                        self.viol.append(("getattr-private", ast.unparse(n)[:160]))
                    elif len(n.args) >= 2 and not isinstance(n.args[1], ast.Constant):
                        self.viol.append(("getattr-dynamic", ast.unparse(n)[:160]))
                elif isinstance(n.func, ast.Name) and (TMP_NAME.match(n.func.id) or n.func.id in RUNTIME_NAMES):
                    pass
                elif self.tainted(n.func):
                    self.viol.append(("call", ast.unparse(n)[:160]))
        return self.viol, self.stats


def structural(pysrc: str):
    """-> (violations [(kind, code)], stats Counter) for raw generated source."""
    return _Walk(ast.parse(pysrc)).run()


# --------------------------------------------------------------------------


def render(env, src: str, data: dict):
    """-> ('ok', output) | ('exc', ExceptionClassName, message)."""
    try:
        t = env.from_string(src)
        return ("ok", t.render(**data))
    except Exception as e:  # noqa: BLE001
        return ("exc", type(e).__name__, str(e)[:200])


_LOOP = []


def _loop():
    import asyncio
    import os

    if not _LOOP or _LOOP[0][0] != os.getpid():
        _LOOP[:] = [(os.getpid(), asyncio.new_event_loop())]
    return _LOOP[0][1]


def compile_src(env, src: str):
    """-> ('code', code object, python source) | ('exc', ExceptionClassName, message).
    The code object may be rendered under any environment with the same
    compile-relevant configuration (see render_code)."""
    try:
        py = env.compile(src, raw=True)
        return ("code", compile(py, "<template>", "exec"), py)
    except Exception as e:  # noqa: BLE001
        return ("exc", type(e).__name__, str(e)[:200])


def render_code(env, compiled, data: dict):
    if compiled[0] == "exc":
        return compiled
    try:
        t = env.template_class.from_code(env, compiled[1], env.make_globals(None), None)
        if env.is_async:
            # Template.render would start a fresh event loop per call (asyncio.run);
            # the public render_async on one loop per worker process is the same code path
            return ("ok", _loop().run_until_complete(t.render_async(**data)))
        return ("ok", t.render(**data))
    except Exception as e:  # noqa: BLE001
        return ("exc", type(e).__name__, str(e)[:200])


_CONTAINERS = (list, tuple, set, frozenset, collections.deque)


def deep_find(values, pred, depth=6):
    """True if pred(v) holds for a recorded value or anything nested in
    list/tuple/set/deque/dict structures of the recorded values."""
    seen = set()

    def rec(v, d):
        if pred(v):
            return True
        if d <= 0 or id(v) in seen:
            return False
        if isinstance(v, _CONTAINERS):
            seen.add(id(v))
            return any(rec(x, d - 1) for x in list(v))
        if isinstance(v, dict):
            seen.add(id(v))
            return any(rec(k, d - 1) or rec(x, d - 1) for k, x in list(v.items()))
        return False

    return any(rec(v, depth) for v in values)
