"""CLI: python -m vf.run <ID> --tier quick|thorough [--replay path]"""
from __future__ import annotations

import argparse
import importlib
import json
import os
import runpy
import sys
import traceback

from . import core


def main(argv=None):
    ap = argparse.ArgumentParser()
    ap.add_argument("pid")
    ap.add_argument("--tier", default=os.environ.get("VERIF_TIER", "quick"), choices=["quick", "thorough"])
    ap.add_argument("--replay")
    a = ap.parse_args(argv)
    pid = a.pid.upper()
    seed = int(os.environ.get("VERIF_SEED", "0") or 0)
    core.setup_repo()
    mod = importlib.import_module("checks." + pid.lower())
    if a.replay:
        data = json.load(open(a.replay))
        if hasattr(mod, "replay"):
            return int(bool(mod.replay(data["detail"])))
        py = a.replay[:-5] + ".py"
        if os.path.exists(py):
            runpy.run_path(py, run_name="__main__")
            return 0
        print(json.dumps(data, indent=1))
        return 0
    ctx = core.Ctx(pid, a.tier, seed, mod.META["level"])
    try:
        mod.run(ctx)
    except core.HarnessError as e:
        print(f"HARNESS ERROR in {pid}: {e}")
        return 2
    except Exception:
        print(f"HARNESS ERROR in {pid}:\n{traceback.format_exc()}")
        return 2
    return core.finish(ctx)


if __name__ == "__main__":
    sys.exit(main())
