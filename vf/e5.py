"""E5 — fault injection.

Data faults: proxy objects that report every observable event (call,
iteration step, attribute, item, str/html conversion, len, bool) to a shared
`Plan`; the plan raises a chosen exception object at the k-th event.  A clean
run (k = 0) yields the number of events N; then every k = 1..N is executed.
"""
from __future__ import annotations


class Boom(Exception):
    """private exception class no library code can know about"""


class Plan:
    def __init__(self, k=0, exc=None):
        self.k = k
        self.n = 0
        self.exc = exc
        self.fired_at = None  # (kind, label)
        self.log = []

    def event(self, kind, label):
        self.n += 1
        self.log.append((kind, label))
        if self.n == self.k:
            self.fired_at = (kind, label)
            raise self.exc


class Fn:
    def __init__(self, plan, label, ret):
        self.plan, self.label, self.ret = plan, label, ret

    def __call__(self, *a, **kw):
        self.plan.event("call", self.label)
        r = self.ret
        return r(*a, **kw) if callable(r) else r

    def __repr__(self):
        return f"Fn({self.label})"


class PFn(Fn):
    """callable data object with a dynamic __getattr__ (lazy proxy): every attribute the engine probes on it is an
    event, and a fault there is the data's own exception like any other"""

    def __getattr__(self, name):
        if name.startswith("__") and name.endswith("__"):
            raise AttributeError(name)
        self.__dict__["plan"].event("probe", self.__dict__["label"] + "." + name)
        raise AttributeError(name)


class AFn(Fn):
    async def __call__(self, *a, **kw):
        self.plan.event("acall", self.label)
        r = self.ret
        return r(*a, **kw) if callable(r) else r


class Seq:
    """iterable whose __iter__, each __next__ and __len__ are events"""

    def __init__(self, plan, label, items, sized=True):
        self.plan, self.label, self.items, self.sized = plan, label, list(items), sized

    def __iter__(self):
        self.plan.event("iter", self.label)
        return _It(self.plan, self.label, iter(self.items))

    def __len__(self):
        self.plan.event("len", self.label)
        return len(self.items)

    def __repr__(self):
        return f"Seq({self.label})"


class _It:
    def __init__(self, plan, label, it):
        self.plan, self.label, self.it = plan, label, it

    def __iter__(self):
        return self

    def __next__(self):
        self.plan.event("next", self.label)
        return next(self.it)


class ASeq:
    """async iterable: __aiter__ and each __anext__ are events"""

    def __init__(self, plan, label, items):
        self.plan, self.label, self.items = plan, label, list(items)

    def __aiter__(self):
        self.plan.event("aiter", self.label)
        return _AIt(self.plan, self.label, iter(self.items))

    def __repr__(self):
        return f"ASeq({self.label})"


class _AIt:
    def __init__(self, plan, label, it):
        self.plan, self.label, self.it = plan, label, it

    def __aiter__(self):
        return self

    async def __anext__(self):
        self.plan.event("anext", self.label)
        try:
            return next(self.it)
        except StopIteration:
            raise StopAsyncIteration from None


class Obj:
    """attribute `a`, `b` (properties) and items are events"""

    def __init__(self, plan, label, attrs=None, items=None):
        self.__dict__["_plan"] = plan
        self.__dict__["_label"] = label
        self.__dict__["_attrs"] = dict(attrs or {})
        self.__dict__["_items"] = dict(items or {})

    def __getattr__(self, name):
        if name.startswith("__") or name not in self._attrs:
            raise AttributeError(name)
        self._plan.event("attr", f"{self._label}.{name}")
        return self._attrs[name]

    def __getitem__(self, key):
        if key not in self._items:
            raise KeyError(key)
        self._plan.event("item", f"{self._label}[{key!r}]")
        return self._items[key]

    def __repr__(self):
        return f"Obj({self._label})"


class Str:
    def __init__(self, plan, label, text):
        self.plan, self.label, self.text = plan, label, text

    def __str__(self):
        self.plan.event("str", self.label)
        return self.text

    def __repr__(self):
        return f"Str({self.label})"


class Html:
    def __init__(self, plan, label, text):
        self.plan, self.label, self.text = plan, label, text

    def __html__(self):
        self.plan.event("html", self.label)
        return self.text

    def __str__(self):
        self.plan.event("str", self.label)
        return self.text

    def __repr__(self):
        return f"Html({self.label})"


class Truth:
    def __init__(self, plan, label, value):
        self.plan, self.label, self.value = plan, label, value

    def __bool__(self):
        self.plan.event("bool", self.label)
        return self.value

    def __repr__(self):
        return f"Truth({self.label})"


class Sized:
    def __init__(self, plan, label, n):
        self.plan, self.label, self.n = plan, label, n

    def __len__(self):
        self.plan.event("len", self.label)
        return self.n

    def __repr__(self):
        return f"Sized({self.label})"
