"""Shared runner plumbing: repo binding, evidence, known findings, replays,
forked worker pool, per-case alarm, scratch directories.

See vf/API.md for how a check uses this.
"""
from __future__ import annotations

import atexit
import contextlib
import hashlib
import json
import multiprocessing
import os
import random
import shutil
import signal
import subprocess
import sys
import time
import traceback

VERIF = os.path.dirname(os.path.dirname(os.path.abspath(__file__)))
REPO = os.environ.get("VERIF_REPO", "/repo")
SRC = os.path.join(REPO, "src")
NPROC = int(os.environ.get("VERIF_NPROC", "0")) or min(16, os.cpu_count() or 1)


def setup_repo():
    """Bind `import jinja2` to $VERIF_REPO/src (default /repo/src)."""
    if SRC in sys.path:
        sys.path.remove(SRC)
    sys.path.insert(0, SRC)
    sys.dont_write_bytecode = True
    import jinja2

    f = os.path.realpath(jinja2.__file__)
    if not f.startswith(os.path.realpath(SRC) + os.sep):
        raise SystemExit(f"HARNESS ERROR: jinja2 imported from {f}, not {SRC}")
    return jinja2


def import_all_jinja():
    """Import every jinja2 submodule (so no import lock is ever taken later)."""
    setup_repo()
    import importlib

    for m in (
        "async_utils bccache compiler constants debug defaults environment "
        "exceptions ext filters idtracking lexer loaders meta nativetypes nodes "
        "optimizer parser runtime sandbox tests utils visitor"
    ).split():
        importlib.import_module("jinja2." + m)


# --------------------------------------------------------------------------
# per-case alarm


class CaseTimeout(BaseException):
    pass


def _on_alarm(signum, frame):
    raise CaseTimeout()


@contextlib.contextmanager
def alarm(seconds: float):
    """per-case hang guard.  Counts CPU time of this process (ITIMER_PROF), not wall-clock time, so a
    starved worker on a loaded machine does not raise a false alarm; code under test never sleeps."""
    old = signal.signal(signal.SIGPROF, _on_alarm)
    signal.setitimer(signal.ITIMER_PROF, seconds)
    try:
        yield
    finally:
        signal.setitimer(signal.ITIMER_PROF, 0)
        signal.signal(signal.SIGPROF, old)


# --------------------------------------------------------------------------
# scratch

_scratch: list[str] = []


def scratch_dir(tag: str = "s") -> str:
    base = "/dev/shm" if os.path.isdir("/dev/shm") else "/var/tmp"
    import tempfile

    d = tempfile.mkdtemp(prefix=f"verif-{os.getpid()}-{tag}-", dir=base)
    _scratch.append(d)
    return d


def _cleanup():
    for d in _scratch:
        shutil.rmtree(d, ignore_errors=True)


atexit.register(_cleanup)


# --------------------------------------------------------------------------
# parts: what a shard returns


class Part:
    """Result of one shard.  Plain data so it pickles cheaply."""

    __slots__ = ("evals", "sigs", "viol", "samples", "counters")

    def __init__(self):
        self.evals = 0
        self.sigs: set = set()
        self.viol: list = []  # (signature, detail dict)
        self.samples: list = []
        self.counters: dict = {}

    def sig(self, s):
        """Register an outcome signature of a non-trivial case."""
        if not isinstance(s, (int, str)):
            s = repr(s)
        if isinstance(s, str) and len(s) > 48:
            s = hashlib.blake2b(s.encode("utf-8", "surrogatepass"), digest_size=8).hexdigest()
        self.sigs.add(s)

    def violation(self, signature: str, detail: dict):
        if len(self.viol) < 200:
            self.viol.append((signature, detail))
        else:
            self.counters["violations_dropped"] = self.counters.get("violations_dropped", 0) + 1

    def sample(self, s, cap=3):
        if len(self.samples) < cap:
            self.samples.append(s)

    def count(self, key, n=1):
        self.counters[key] = self.counters.get(key, 0) + n

    def __getstate__(self):
        return (self.evals, self.sigs, self.viol, self.samples, self.counters)

    def __setstate__(self, st):
        self.evals, self.sigs, self.viol, self.samples, self.counters = st


def _run_shard(args):
    fn, shard = args
    try:
        p = fn(shard)
        if not isinstance(p, Part):
            raise TypeError(f"shard function returned {type(p)}")
        return ("ok", p)
    except BaseException:
        return ("err", f"shard {shard!r}:\n{traceback.format_exc()}")


def _pin_worker():
    """Pin each pool worker to one CPU: the thread scheduler's baton hand-offs
    are ~8x cheaper when all threads of a worker share a core."""
    try:
        cpus = sorted(os.sched_getaffinity(0))
        ident = multiprocessing.current_process()._identity
        k = (ident[0] - 1) if ident else 0
        # offset by the parent's pid so that concurrent runs do not pile onto the same CPUs
        os.sched_setaffinity(0, {cpus[(k + os.getppid() * 5) % len(cpus)]})
    except Exception:
        pass


class HarnessError(Exception):
    pass


# --------------------------------------------------------------------------
# context of one check run


class Ctx:
    def __init__(self, pid: str, tier: str, seed: int, level: str):
        self.pid = pid
        self.tier = tier
        self.seed = seed
        self.level = level
        self.t0 = time.time()
        self.cov: dict = {}
        self.assumptions: list[str] = []
        self.sigs: set = set()
        self.samples: list = []
        self.viol: list = []
        self.evals = 0
        self.counters: dict = {}
        self.rule = ""
        self.exhaustive = True
        self.caps: list[str] = []

    @property
    def quick(self):
        return self.tier == "quick"

    def merge(self, p: Part, sample_cap=12):
        self.evals += p.evals
        self.sigs |= p.sigs
        self.viol.extend(p.viol)
        for s in p.samples:
            if len(self.samples) < sample_cap:
                self.samples.append(s)
        for k, v in p.counters.items():
            if isinstance(v, (int, float)):
                self.counters[k] = self.counters.get(k, 0) + v
            else:
                self.counters[k] = v

    def pmap(self, fn, shards, nproc: int | None = None, pin: bool = False, fresh: bool = False):
        """Run fn(shard)->Part for every shard on forked workers and merge.

        VERIF_SEED only permutes the order in which shards are handed out.
        """
        shards = list(shards)
        random.Random(self.seed).shuffle(shards)
        nproc = nproc or NPROC
        if nproc <= 1 or len(shards) <= 1:
            for sh in shards:
                st, p = _run_shard((fn, sh))
                if st == "err":
                    raise HarnessError(p)
                self.merge(p)
            return
        mp = multiprocessing.get_context("fork")
        # pin=True: one CPU per worker; only worth it for the thread-scheduler engine (cheap baton hand-offs),
        # it hurts fork-heavy or long shards on a machine that also runs other work
        # fresh=True: a new worker process (fork of this, pristine, parent) for every shard
        if os.environ.get("VERIF_PIN") == "0":
            pin = False
        with mp.Pool(min(nproc, len(shards)), initializer=_pin_worker if pin else None,
                     maxtasksperchild=1 if fresh else None) as pool:
            for st, p in pool.imap_unordered(_run_shard, [(fn, s) for s in shards]):
                if st == "err":
                    pool.terminate()
                    raise HarnessError(p)
                self.merge(p)

    def cap_hit(self, what: str):
        self.exhaustive = False
        self.caps.append(what)

    def violation(self, signature: str, detail: dict):
        self.viol.append((signature, detail))


# --------------------------------------------------------------------------
# known findings


def load_known(pid: str):
    path = os.path.join(VERIF, "known_findings.json")
    known = {}
    try:
        data = json.load(open(path))
    except FileNotFoundError:
        return known
    for e in data.get("findings", []):
        if e.get("property") == pid and e.get("status") == "known":
            known[e["signature"]] = e
    return known


def tree_id():
    def run(*a):
        try:
            return subprocess.run(a, cwd=REPO, capture_output=True, text=True, timeout=20).stdout
        except Exception:
            return ""

    head = run("git", "rev-parse", "HEAD").strip()
    diff = run("git", "diff", "HEAD", "--", "src")
    return {"repo": REPO, "head": head, "src_diff_sha1": hashlib.sha1(diff.encode()).hexdigest() if diff else None}


def write_replay(pid: str, signature: str, detail: dict) -> str:
    d = os.path.join(os.environ.get("VERIF_REPLAY_DIR") or os.path.join(VERIF, "replays"), pid)
    os.makedirs(d, exist_ok=True)
    blob = json.dumps({"property": pid, "signature": signature, "detail": detail}, sort_keys=True, default=repr, indent=1)
    h = hashlib.sha1((signature + blob).encode()).hexdigest()[:12]
    path = os.path.join(d, h + ".json")
    with open(path, "w") as f:
        f.write(blob)
    script = detail.get("script") if isinstance(detail, dict) else None
    if script:
        with open(os.path.join(d, h + ".py"), "w") as f:
            f.write(
                "# stand-alone replay; run with /venv/bin/python (VERIF_REPO selects the tree)\n"
                "import os, sys\n"
                "sys.path.insert(0, os.path.join(os.environ.get('VERIF_REPO', '/repo'), 'src'))\n"
                f"sys.path.insert(0, {VERIF!r})\n" + script + "\n"
            )
    return path


def finish(ctx: Ctx) -> int:
    """Classify violations, write evidence, print the verdict lines."""
    known = load_known(ctx.pid)
    seen_known: dict[str, int] = {}
    real: dict[str, dict] = {}
    nreal = 0
    for sig, detail in ctx.viol:
        if sig in known:
            seen_known[sig] = seen_known.get(sig, 0) + 1
        else:
            nreal += 1
            real.setdefault(sig, detail)
    for sig, n in sorted(seen_known.items()):
        what = " ".join(str(known[sig].get("what", "")).split())
        if len(what) > 220:
            what = what[:217] + "..."
        print(f"KNOWN-FINDING: property={ctx.pid} {sig}: {what} [{n} case(s) this run]")
    rc = 0
    for sig, detail in list(sorted(real.items()))[:25]:
        path = write_replay(ctx.pid, sig, detail)
        print(f"VIOLATION property={ctx.pid} replay={path}")
        print(f"  signature: {sig}")
        msg = detail.get("msg") if isinstance(detail, dict) else None
        if msg:
            print("  " + str(msg)[:600])
        rc = 1
    cov = dict(ctx.cov)
    cov.setdefault("evaluations", ctx.evals)
    cov.setdefault("distinct_nontrivial", len(ctx.sigs))
    cov.setdefault("rule", ctx.rule)
    cov.setdefault("samples", ctx.samples[:12] or ["<none>"])
    cov["exhaustive"] = bool(ctx.exhaustive)
    if ctx.caps:
        cov["caps_hit"] = ctx.caps
    for k, v in ctx.counters.items():
        cov.setdefault(k, v)
    cov["known_findings_seen"] = seen_known
    cov["tree"] = tree_id()
    cov["nproc"] = NPROC
    ev = {
        "property_id": ctx.pid,
        "tier": ctx.tier,
        "seed": ctx.seed,
        "level": ctx.level,
        "coverage": cov,
        "assumptions": ctx.assumptions,
        "wall_s": round(time.time() - ctx.t0, 3),
        "violations": nreal,
    }
    # VERIF_EVIDENCE_DIR: used only by tools/try_patch.sh so that runs against a mutated scratch
    # tree do not overwrite the evidence of the real tree
    evdir = os.environ.get("VERIF_EVIDENCE_DIR") or os.path.join(VERIF, "evidence")
    os.makedirs(evdir, exist_ok=True)
    path = os.path.join(evdir, f"{ctx.pid}.json")
    tmp = path + ".tmp"
    with open(tmp, "w") as f:
        json.dump(ev, f, indent=1, sort_keys=True, default=repr)
        f.write("\n")
    os.replace(tmp, path)
    ok = validate_evidence(path)
    if not ok:
        print(f"HARNESS ERROR: evidence {path} does not validate")
        rc = rc or 2
    print(
        f"{ctx.pid} tier={ctx.tier} seed={ctx.seed} evaluations={cov['evaluations']} "
        f"distinct_nontrivial={cov['distinct_nontrivial']} "
        + (f"states={cov['states']} transitions={cov['transitions']} " if "states" in cov else "")
        + f"exhaustive={cov['exhaustive']} violations={nreal} known={sum(seen_known.values())} "
        f"wall={ev['wall_s']}s"
    )
    return rc


def validate_evidence(path: str) -> bool:
    vt = shutil.which("python3-vt") or "/opt/veriftools/pyvenv/bin/python"
    schema = "/root/.vp/EVIDENCE.schema.json"
    if not (os.path.exists(vt) and os.path.exists(schema)):
        return True
    code = (
        "import json,sys,jsonschema;"
        "jsonschema.validate(json.load(open(sys.argv[1])),json.load(open(sys.argv[2])))"
    )
    env = dict(os.environ)
    env.pop("PYTHONPATH", None)
    r = subprocess.run([vt, "-c", code, path, schema], capture_output=True, text=True, env=env)
    if r.returncode != 0:
        sys.stderr.write(r.stderr[-2000:])
    return r.returncode == 0
