"""Shared corpus of generated template sets for the "same programs, other angle" checks
(C09 async parity, C10 entry points, C16 escape-once, C31 precompiled, C32 introspection).

Items come from the three program generators (statement programs of vf/gen_stmt, inheritance chains of
vf/gen_inh, include/import scenarios of vf/gen_ctx), enumerated completely up to the bounds below.

    for it in items(tier, shard=(k, n), kinds=("stmt", "inh", "ctx")):
        env, get_main, data = it.make(env_cls=None, env_kwargs={...}, loader=None)
        out = get_main().render(**data)

`it.sources` is the dict name -> source of the item's templates; `it.ident` is JSON-able.
"""
from __future__ import annotations

from vf import gen_ctx as C
from vf import gen_inh as I
from vf import gen_stmt as G

INH_SMALL = [
    {"depth": 1, "names": ("a", "b"), "kinds": "full", "forms": I.EXT_FORMS, "selfcall": "first"},
    {"depth": 2, "names": ("a",), "kinds": "full", "forms": I.EXT_FORMS, "selfcall": "first"},
    {"depth": 2, "names": ("a", "b"), "kinds": "reduced", "forms": I.EXT_FORMS, "selfcall": "none"},
    {"depth": 3, "names": ("a",), "kinds": "reduced", "forms": ("lit", "cond"), "selfcall": "none"},
]

BOUNDS = {
    # "small": for the checks that do heavy work per item (precompilation, many environment classes)
    "small": {"stmt": ("tiny", 2), "stmt2": ("core", 2), "inh": INH_SMALL[:2], "ctx": "quick", "ctx_filter": "no-template-globals"},
    "quick": {"stmt": ("tiny", 3), "stmt2": ("mid", 2), "inh": INH_SMALL, "ctx": "quick"},
    "thorough": {"stmt": ("mid", 3), "stmt2": ("full", 2), "inh": "quick", "ctx": "thorough"},
}


class Item:
    __slots__ = ("kind", "case", "data", "sources", "main", "ident")

    def __init__(self, kind, case, data, sources, main, ident):
        self.kind, self.case, self.data, self.sources, self.main, self.ident = kind, case, data, sources, main, ident

    def make(self, env_cls=None, env_kwargs=None, loader=None, value=None):
        """fresh environment; returns (env, get_main, data).  `loader` replaces the DictLoader over self.sources."""
        import jinja2

        env_cls = env_cls or jinja2.Environment
        kw = dict(env_kwargs or {})
        ld = loader if loader is not None else jinja2.DictLoader(dict(self.sources))
        if self.kind == "stmt":
            kw.setdefault("extensions", list(G.ENV_KWARGS["extensions"]))
            env = env_cls(loader=ld, **kw)
            data = G.render_data(self.data)
            if value is not None:
                data = {k: (value if v == 7 else v) for k, v in data.items()}
            return env, (lambda: env.get_template("main")), data
        if self.kind == "inh":
            env = env_cls(loader=ld, **kw)
            return env, (lambda: env.get_template(self.main)), I.bind(env, self.data)
        # ctx
        g = C.globals_for(self.case)
        env = env_cls(loader=ld, **kw)
        env.globals.update(g["env"])
        h = env.get_template("h", globals=g["h"]) if "h" in self.sources else None
        if C._fields(self.case).get("target") == "lit-warm":
            # the helper's default module already exists (cached) before the main template runs
            if env.is_async:
                from vf import e4

                e4.run(h._get_default_module_async())
            else:
                h.module  # creates and caches the default module
        return env, (lambda: env.get_template(self.main, globals=g["main"])), C.bind_data(env, self.data)


def _stmt_items(profile, n, shard):
    for prog in G.programs(n, G.POOL2, profile, shard=shard):
        src = G.to_source(prog)
        for data in G.data_assignments(G.POOL2, prog):
            yield Item("stmt", prog, data, {"main": src}, "main", {"stmt": src, "data": {k: v for k, v in sorted(data.items())}})


def _inh_items(bound, shard):
    for case in I.cases(bound, shard=shard):
        src, main, data = I.to_templates(case)
        yield Item("inh", case, data, src, main, {"inh": I.tojson(case)})


def _ctx_items(bound, shard, flt=None):
    for case in C.cases(bound, shard=shard):
        if case[0] == "mod" or (case[0] == "sel" and not case[1].startswith("inc")) or (case[0] == "tset" and case[1] != "import"):
            continue  # no main template: module attributes and select_template calls are C05's own observations
        if flt == "no-template-globals":
            f = C._fields(case)
            if f.get("mglob") or f.get("hglob"):
                continue
        src, main, data = C.to_templates(case)
        yield Item("ctx", case, data, src, main, {"ctx": C.tojson(case)})


def items(tier, shard=None, kinds=("stmt", "inh", "ctx")):
    b = BOUNDS[tier]
    if "stmt" in kinds:
        yield from _stmt_items(b["stmt"][0], b["stmt"][1], shard)
        yield from _stmt_items(b["stmt2"][0], b["stmt2"][1], shard)
    if "inh" in kinds:
        yield from _inh_items(b["inh"], shard)
    if "ctx" in kinds:
        yield from _ctx_items(b["ctx"], shard, b.get("ctx_filter"))


def outcome(fn):
    try:
        return fn()
    except Exception as e:  # noqa: BLE001 - outcome
        return ("exc", type(e).__name__)


def safe_make(it, **kw):
    """it.make(...) that never raises: building an item can already load templates (template objects passed
    as data, pre-loaded helpers); if that fails the returned get_main re-raises the error when called, so the
    failure is an OUTCOME of the variant under comparison instead of a harness error."""
    try:
        return it.make(**kw)
    except Exception as e:  # noqa: BLE001

        def gm(e=e):
            raise e

        return None, gm, {}
