"""Statement mini-language: AST, bounded-exhaustive enumerator, printer and the
reference interpreter R-stmt (lexical scoping as documented in docs/templates.rst).

Used by C03 (scoping) and reusable by C09 / C10 / C16 / C32.  This module never
imports jinja2 (no lexer, parser, compiler, runtime): everything here is plain
Python written from the documentation.

PUBLIC INTERFACE
================

    from vf import gen_stmt as G

    for prog in G.programs(max_nodes=3, pool=("a", "b"), profile="mid"):
        src = G.to_source(prog)                      # Jinja source (str)
        for data in G.data_assignments(("a", "b"), prog):
            expected = G.interpret(prog, data)       # str, or G.Failure("UndefinedError")
            got = env.from_string(src).render(**G.render_data(data))

    G.ENV_KWARGS                  -> kwargs for jinja2.Environment (loopcontrols extension)
    G.programs(max_nodes, pool=POOL2, profile="mid", max_depth=3, shard=None,
               canonical=None, min_nodes=0)
                                  -> generator of programs (tuples of statements), simplest
                                     first (by node count), deterministic order.
                                     shard=(k, K): a disjoint, exhaustive, balanced partition
                                     (index of first statement + index of the rest = k mod K).
                                     canonical=True keeps only programs whose pool
                                     variables first occur in pool order (a before b
                                     before c): one representative per variable
                                     permutation class.  Default (None): True for the
                                     profiles whose alphabet is closed under permuting
                                     the pool ("full", "alias"), False otherwise.
    G.count(max_nodes, pool, profile, ...)           -> number of programs (same arguments)
    G.with_epilogue(prog, pool)   -> prog + ("|", {{ a }}, "|", {{ b }} ...) observation tail
    G.to_source(prog, rename=None)-> Jinja source; rename = {identifier: identifier} applied
                                     to pool variables, macro names and namespace names
                                     (alpha-renaming).  Flags f/g and `tree` are not renamed.
    G.interpret(prog, data)       -> rendered text (str) or Failure(exception class name)
                                     (Failure is a tuple ("error", "<ClassName>"); .cls gives the name)
    G.PROFILES                    -> names of the label alphabets, see alphabet()
    G.late_store_pattern(prog), G.loopctl_else_pattern(prog), interpret(..., variant=...)
                                  -> diagnosis aids used by C03 to give known deviations a
                                     narrow signature (structural predicate on the program +
                                     a variant interpreter); never used to accept an output
    G.data_assignments(pool, prog=None, flags=FLAGS, value=7)
                                  -> list of dicts: every pool variable absent / = value,
                                     every flag True / False (only names used by `prog`
                                     are varied when it is given)
    G.render_data(data, rename=None) -> dict to pass to Template.render (adds `tree`)
    G.identifiers(prog)           -> renameable identifiers in order of first occurrence
    G.size(prog), G.depth(prog), G.kinds(prog)

AST (all plain tuples, hashable, JSON-friendly)
===============================================

expressions
    ("c", 1)                      constant
    ("v", "a")                    variable read
    ("cat", e1, e2)               e1 ~ e2            (operands are atoms)
    ("add1", e)                   e + 1              (operand is an atom)
    ("def", "a")                  a is defined
    ("odd", "a")                  a is odd           (loop filters)
    ("flag", "f")                 context flag (never renamed)
    ("nsget", "ns", "x")          ns.x
    ("call", "m", (args...), ((kw, e), ...))   macro call
    ("caller", (args...))         caller(...) inside a macro
statements
    ("out", e)                                   {{ e }}
    ("text", "|")                                literal template data
    ("set", "a", e)                              {% set a = e %}
    ("bset", "a", body)                          {% set a %}s<body>{% endset %}
    ("if", ((cond, body), ...), else_body)       {% if %}i..{% elif %}j..{% else %}e..{% endif %}
    ("for", "a", seq, cond|None, body, else_body) seq in "l12" ([1, 2]) / "empty" ([])
                                                 {% for a in [1, 2] if cond %}(<body>){% else %}!<else>{% endfor %}
    ("break",) ("continue",)                     need jinja2.ext.loopcontrols
    ("with", ((name, e), ...), body)             {% with a = e %}w<body>{% endwith %}
    ("macro", "m", ((param, default|None), ...), body)   {% macro m(a, b=e) %}<<body>>{% endmacro %}
    ("callblock", (cparams...), call_expr, body) {% call(a) m(1) %}c<body>;{% endcall %}
                                                 a cparam is a name or a (name, default) pair: call(a=e)
    ("filter", body)                             {% filter upper %}x<body>{% endfilter %}
    ("nsnew", "ns", e)                           {% set ns = namespace(x=e) %}
    ("nsset", "ns", "x", e)                      {% set ns.x = e %}
    ("recfor", "a", body)                        {% for a in tree recursive %}[<body>{{ loop(a.c) }}]{% endfor %}
A program is a tuple of statements.  The single-character literals (i j e ( ) ! w
< > c ; x s [ ]) are part of the printed form *and* of the interpreter so that
which branch / how many iterations ran is visible in the output.

"statement nodes" (the size bound): every statement counts 1, an `elif` arm counts 1,
`else` arms are free but must be non-empty; "text" nodes are free (only the
epilogue uses them).  Nesting = number of enclosing compound statements (<= 3).

R-stmt RULES (docs/templates.rst: "Assignments"/"Scoping Behavior", "For", "Macros",
"Call", "Filters" sections, "Block Assignments", "With Statement", "Loop Controls")
-------------------------------------------------------------------------------
 * one top-level scope backed by the render data;  `if` shares the enclosing scope;
 * every for-iteration, for-else, loop-filter test, with, macro body, call block,
   filter block and block-set body opens a child scope of the scope it is written
   in; assignments there never leak out;
 * `with a = e` evaluates e in the enclosing scope;
 * a macro closes over the scope it is defined in and sees it *as it is at call
   time*; parameters are local; a call block is an anonymous macro handed to the
   callee as `caller`;
 * `namespace()` objects are ordinary values: attribute assignment mutates the
   object wherever it is reachable, so it is the only cross-scope store;
 * for-else runs iff no iteration took place (after filtering); break/continue as
   documented for the loopcontrols extension;
 * undefined prints as "", `undefined ~ x` treats it as "", `undefined + 1`,
   `undefined.attr` and calling undefined raise UndefinedError.
Rules frozen from the tree because the docs are silent are tagged `# CALIBRATED`.
"""
from __future__ import annotations

import itertools

POOL2 = ("a", "b")
POOL3 = ("a", "b", "c")
MACRO = "m"
NS = "ns"
FLAGS = ("f", "g")
TREE = "tree"
ENV_KWARGS = {"extensions": ["jinja2.ext.loopcontrols"]}

# names that have a special meaning in templates and therefore never take part in
# alpha-renaming (neither as source nor as target)
SPECIAL_NAMES = frozenset(
    "loop self super caller varargs kwargs true false none True False None namespace range "
    "dict lipsum cycler joiner f g tree x not and or is in if else elif for recursive "
    "set with macro call filter block import from include extends".split()
)


# --------------------------------------------------------------------------- data

class T(int):
    """tree node for recursive loops: an int with children `.c` (prints as the int)."""

    def __new__(cls, n, c=()):
        o = int.__new__(cls, n)
        o.c = list(c)
        return o

    def __str__(self):
        return str(int(self))

    def __repr__(self):
        return "T(%d, %r)" % (int(self), self.c)


def make_tree():
    """two-level tree: 3 -> (4, 5); 6"""
    return [T(3, [T(4), T(5)]), T(6)]


class Failure(tuple):
    """Exception marker returned by interpret(): Failure('UndefinedError')."""

    def __new__(cls, name):
        return tuple.__new__(cls, ("error", name))

    @property
    def cls(self):
        return self[1]

    def __repr__(self):
        return "Failure(%r)" % (self[1],)


# --------------------------------------------------------------------------- AST helpers

def C(n):
    return ("c", n)


def V(x):
    return ("v", x)


def cparams(st):
    """call-block parameters as (name, default|None) pairs."""
    return tuple((p, None) if isinstance(p, str) else tuple(p) for p in st[1])


COMPOUND = ("bset", "if", "for", "with", "macro", "callblock", "filter", "recfor")


def bodies(st):
    """child statement lists of a statement, in source order."""
    k = st[0]
    if k == "if":
        return [b for _, b in st[1]] + ([st[2]] if st[2] else [])
    if k == "for":
        return [st[4]] + ([st[5]] if st[5] else [])
    if k in ("bset", "with", "recfor"):
        return [st[2]]
    if k in ("macro", "callblock"):
        return [st[3]]
    if k == "filter":
        return [st[1]]
    return []


def stmt_size(st):
    k = st[0]
    if k == "text":
        return 0
    n = 1
    if k == "if":
        n = len(st[1])
    for b in bodies(st):
        n += size(b)
    return n


def size(prog):
    return sum(stmt_size(s) for s in prog)


def depth(prog):
    d = 0
    for s in prog:
        bs = bodies(s)
        if s[0] in COMPOUND:
            d = max(d, 1 + max([depth(b) for b in bs] or [0]))
    return d


def kinds(prog):
    out = set()
    for s in prog:
        out.add(s[0])
        for b in bodies(s):
            out |= kinds(b)
    return out


def _expr_names(e, acc, flags):
    k = e[0]
    if k == "v" or k == "def" or k == "odd":
        acc.append(e[1])
    elif k == "flag":
        flags.append(e[1])
    elif k == "cat":
        _expr_names(e[1], acc, flags)
        _expr_names(e[2], acc, flags)
    elif k == "add1":
        _expr_names(e[1], acc, flags)
    elif k == "nsget":
        acc.append(e[1])
    elif k == "call":
        acc.append(e[1])
        for a in e[2]:
            _expr_names(a, acc, flags)
        for kw, a in e[3]:
            acc.append(kw)
            _expr_names(a, acc, flags)
    elif k == "caller":
        for a in e[1]:
            _expr_names(a, acc, flags)


def _stmt_names(st, acc, flags):
    k = st[0]
    if k == "out":
        _expr_names(st[1], acc, flags)
    elif k == "set":
        # source order: target is written first
        acc.append(st[1])
        _expr_names(st[2], acc, flags)
    elif k == "bset":
        acc.append(st[1])
        _prog_names(st[2], acc, flags)
    elif k == "if":
        for cond, b in st[1]:
            _expr_names(cond, acc, flags)
            _prog_names(b, acc, flags)
        if st[2]:
            _prog_names(st[2], acc, flags)
    elif k == "for":
        acc.append(st[1])
        if st[3] is not None:
            _expr_names(st[3], acc, flags)
        _prog_names(st[4], acc, flags)
        if st[5]:
            _prog_names(st[5], acc, flags)
    elif k == "with":
        for n, e in st[1]:
            acc.append(n)
            _expr_names(e, acc, flags)
        _prog_names(st[2], acc, flags)
    elif k == "macro":
        acc.append(st[1])
        for p, d in st[2]:
            acc.append(p)
            if d is not None:
                _expr_names(d, acc, flags)
        _prog_names(st[3], acc, flags)
    elif k == "callblock":
        for p, d in cparams(st):
            acc.append(p)
            if d is not None:
                _expr_names(d, acc, flags)
        _expr_names(st[2], acc, flags)
        _prog_names(st[3], acc, flags)
    elif k == "filter":
        _prog_names(st[1], acc, flags)
    elif k == "nsnew":
        acc.append(st[1])
        _expr_names(st[2], acc, flags)
    elif k == "nsset":
        acc.append(st[1])
        _expr_names(st[3], acc, flags)
    elif k == "recfor":
        acc.append(st[1])
        _prog_names(st[2], acc, flags)


def _prog_names(prog, acc, flags):
    for s in prog:
        _stmt_names(s, acc, flags)


def identifiers(prog):
    """renameable identifiers (variables, macro names, namespace names, keyword-argument
    names) in order of first occurrence in the source."""
    acc, flags = [], []
    _prog_names(prog, acc, flags)
    seen, out = set(), []
    for n in acc:
        if n not in seen:
            seen.add(n)
            out.append(n)
    return out


def used_flags(prog):
    acc, flags = [], []
    _prog_names(prog, acc, flags)
    return sorted(set(flags))


def is_canonical(prog, pool):
    """pool variables first occur in pool order."""
    order = [n for n in identifiers(prog) if n in pool]
    return order == list(pool[: len(order)])


def with_epilogue(prog, pool):
    tail = []
    for v in pool:
        tail.append(("text", "|"))
        tail.append(("out", V(v)))
    return tuple(prog) + tuple(tail)


# --------------------------------------------------------------------------- printer

def _rn(rename, name):
    if rename is None:
        return name
    return rename.get(name, name)


def expr_source(e, rename=None):
    k = e[0]
    if k == "c":
        return repr(e[1])
    if k == "v":
        return _rn(rename, e[1])
    if k == "flag":
        return e[1]
    if k == "cat":
        return "%s ~ %s" % (expr_source(e[1], rename), expr_source(e[2], rename))
    if k == "add1":
        return "%s + 1" % expr_source(e[1], rename)
    if k == "def":
        return "%s is defined" % _rn(rename, e[1])
    if k == "odd":
        return "%s is odd" % _rn(rename, e[1])
    if k == "nsget":
        return "%s.%s" % (_rn(rename, e[1]), e[2])
    if k == "call":
        args = [expr_source(a, rename) for a in e[2]]
        args += ["%s=%s" % (_rn(rename, kw), expr_source(a, rename)) for kw, a in e[3]]
        return "%s(%s)" % (_rn(rename, e[1]), ", ".join(args))
    if k == "caller":
        return "caller(%s)" % ", ".join(expr_source(a, rename) for a in e[1])
    raise ValueError(e)


def stmt_source(st, rename=None):
    k = st[0]
    S = lambda b: "".join(stmt_source(s, rename) for s in b)  # noqa: E731
    E = lambda e: expr_source(e, rename)  # noqa: E731
    if k == "out":
        return "{{ %s }}" % E(st[1])
    if k == "text":
        return st[1]
    if k == "set":
        return "{%% set %s = %s %%}" % (_rn(rename, st[1]), E(st[2]))
    if k == "bset":
        return "{%% set %s %%}s%s{%% endset %%}" % (_rn(rename, st[1]), S(st[2]))
    if k == "if":
        out = []
        for i, (cond, b) in enumerate(st[1]):
            out.append("{%% %s %s %%}%s%s" % ("if" if i == 0 else "elif", E(cond), "i" if i == 0 else "j", S(b)))
        if st[2]:
            out.append("{% else %}e" + S(st[2]))
        out.append("{% endif %}")
        return "".join(out)
    if k == "for":
        seq = "[1, 2]" if st[2] == "l12" else "[]"
        head = "{%% for %s in %s" % (_rn(rename, st[1]), seq)
        if st[3] is not None:
            head += " if " + E(st[3])
        head += " %}"
        out = head + "(" + S(st[4]) + ")"
        if st[5]:
            out += "{% else %}!" + S(st[5])
        return out + "{% endfor %}"
    if k == "break":
        return "{% break %}"
    if k == "continue":
        return "{% continue %}"
    if k == "with":
        binds = ", ".join("%s = %s" % (_rn(rename, n), E(e)) for n, e in st[1])
        return "{%% with%s %%}w%s{%% endwith %%}" % (" " + binds if binds else "", S(st[2]))
    if k == "macro":
        ps = ", ".join(_rn(rename, p) if d is None else "%s=%s" % (_rn(rename, p), E(d)) for p, d in st[2])
        return "{%% macro %s(%s) %%}<%s>{%% endmacro %%}" % (_rn(rename, st[1]), ps, S(st[3]))
    if k == "callblock":
        cp = ", ".join(_rn(rename, p) if d is None else "%s=%s" % (_rn(rename, p), E(d)) for p, d in cparams(st))
        cp = "(%s)" % cp if cp else ""
        return "{%% call%s %s %%}c%s;{%% endcall %%}" % (cp, E(st[2]), S(st[3]))
    if k == "filter":
        return "{%% filter upper %%}x%s{%% endfilter %%}" % S(st[1])
    if k == "nsnew":
        return "{%% set %s = namespace(x=%s) %%}" % (_rn(rename, st[1]), E(st[2]))
    if k == "nsset":
        return "{%% set %s.%s = %s %%}" % (_rn(rename, st[1]), st[2], E(st[3]))
    if k == "recfor":
        v = _rn(rename, st[1])
        return "{%% for %s in tree recursive %%}[%s{{ loop(%s.c) }}]{%% endfor %%}" % (v, S(st[2]), v)
    raise ValueError(st)


def to_source(prog, rename=None):
    """Jinja source of a program.  `rename` maps identifiers (see identifiers()) to
    new identifiers; it must be injective on the identifiers of the program."""
    if rename:
        ids = identifiers(prog)
        img = [_rn(rename, i) for i in ids]
        if len(set(img)) != len(img):
            raise ValueError("rename is not injective on %r" % (ids,))
    return "".join(stmt_source(s, rename) for s in prog)


# --------------------------------------------------------------------------- data assignments

def data_assignments(pool, prog=None, flags=FLAGS, value=7):
    """All assignments: each pool variable absent or = value, each flag True/False.
    With `prog`, only names that occur in it are varied (unused flags fixed False,
    unused variables absent).  Deterministic order, all-absent/all-False first."""
    vs = list(pool)
    fs = list(flags)
    if prog is not None:
        ids = set(identifiers(prog))
        vs = [v for v in vs if v in ids]
        uf = set(used_flags(prog))
        fs = [f for f in fs if f in uf]
    out = []
    for vbits in itertools.product((False, True), repeat=len(vs)):
        for fbits in itertools.product((False, True), repeat=len(fs)):
            d = {f: False for f in flags}
            d.update(dict(zip(fs, fbits)))
            for v, on in zip(vs, vbits):
                if on:
                    d[v] = value
            out.append(d)
    return out


def render_data(data, rename=None):
    """dict for Template.render(**...): renamed keys, plus a fresh `tree`."""
    d = {_rn(rename, k): v for k, v in data.items()}
    d[TREE] = make_tree()
    return d


# --------------------------------------------------------------------------- enumerator

def alphabet(pool, profile):
    """Label alphabets of a profile.  Returns a dict of lists; see programs().

    profiles (label alphabets; thinner alphabets are enumerated deeper):
      "full"  every statement kind and variant of the mini-language
      "mid"   every statement kind, one or two variants each
      "core"  set / out / if / for / with / macro+call on two variables
      "tiny"  nine labels: the scoping skeleton (out, set, if, for, with, macro, call)
      "tiny2" nine labels: block set, filter block, recursive loop, namespace store
      "tiny3" fifteen labels: macro / call-block parameters and defaults (other variable,
              same-named outer variable), caller, break
      "alias5" eight labels on three variables (out, set, copies, for, with)
      "deep1" six labels on one variable (out, set, read-modify-write, if, for, with)
      "macro5" five labels on one variable (out, set, read-modify-write, macro, call)
      "alias" set / out / if / for / with on the whole pool (can-alias subset)
    """
    P = list(pool)
    a = {}
    pairs = [(x, y) for x in P for y in P if x != y]
    if profile == "full":
        a["out"] = ([V(x) for x in P] + [("add1", V(x)) for x in P] + [("def", x) for x in P]
                    + [("cat", V(x), V(y)) for x, y in pairs] + [("nsget", NS, "x")])
        a["set"] = ([(x, C(1)) for x in P] + [(x, C(2)) for x in P] + [(x, V(y)) for x, y in pairs]
                    + [(x, ("add1", V(x))) for x in P] + [(x, ("cat", V(x), V(y))) for x, y in pairs]
                    + [(x, V(x)) for x in P])
        a["if"] = [(("flag", "f"),), (("flag", "f"), ("flag", "g"))]
        a["for"] = ([(x, "l12", None) for x in P] + [(x, "empty", None) for x in P]
                    + [(x, "l12", ("odd", x)) for x in P] + [(x, "l12", ("flag", "f")) for x in P]
                    + [(x, "l12", ("def", y)) for x, y in pairs])
        a["loopctl"] = [("break",), ("continue",)]
        a["with"] = ([()] + [((x, C(1)),) for x in P] + [((x, V(y)),) for x, y in pairs]
                     + [((x, V(x)),) for x in P]
                     + [((x, V(y)), (y, V(x))) for x, y in pairs])
        a["macro"] = ([()] + [((x, None),) for x in P] + [((x, C(1)),) for x in P]
                      + [((x, V(y)),) for x, y in pairs] + [((x, V(x)),) for x in P]
                      + [((x, None), (y, V(x))) for x, y in pairs] + [((x, V(y)), (y, C(2))) for x, y in pairs])
        a["call"] = ([("call", MACRO, (), ())] + [("call", MACRO, (C(1),), ())]
                     + [("call", MACRO, (V(x),), ()) for x in P]
                     + [("call", MACRO, (), ((x, C(1)),)) for x in P]
                     + [("call", MACRO, (C(1), C(2)), ())])
        a["caller"] = [("caller", ()), ("caller", (C(1),))] + [("caller", (V(x),)) for x in P]
        a["callblock"] = ([((), ("call", MACRO, (), ())), ((), ("call", MACRO, (C(1),), ()))]
                          + [((), ("call", MACRO, (V(x),), ())) for x in P]
                          + [((x,), ("call", MACRO, (), ())) for x in P]
                          + [((x,), ("call", MACRO, (V(y),), ())) for x in P for y in P]
                          + [(((x, V(x)),), ("call", MACRO, (), ())) for x in P])
        a["filter"] = [True]
        a["bset"] = list(P)
        a["nsnew"] = [C(1)] + [V(x) for x in P]
        a["nsset"] = [C(2), ("add1", ("nsget", NS, "x"))] + [V(x) for x in P]
        a["recfor"] = list(P)
    elif profile == "mid":
        x, y = P[0], P[1]
        a["out"] = [V(v) for v in P] + [("add1", V(x)), ("def", x), ("nsget", NS, "x")]
        a["set"] = [(v, C(1)) for v in P] + [(x, V(y)), (y, V(x)), (x, ("add1", V(x)))]
        a["if"] = [(("flag", "f"),), (("flag", "f"), ("flag", "g"))]
        a["for"] = [(x, "l12", None), (y, "l12", None), (x, "empty", None), (x, "l12", ("odd", x)), (x, "l12", ("def", y))]
        a["loopctl"] = [("break",), ("continue",)]
        a["with"] = [(), ((x, C(1)),), ((x, V(y)),), ((x, V(x)),)]
        a["macro"] = [(), ((x, None),), ((x, V(y)),), ((x, V(x)),), ((x, None), (y, V(x)))]
        a["call"] = [("call", MACRO, (), ()), ("call", MACRO, (C(1),), ()), ("call", MACRO, (V(y),), ()),
                     ("call", MACRO, (), ((x, C(1)),))]
        a["caller"] = [("caller", ()), ("caller", (V(x),))]
        a["callblock"] = [((), ("call", MACRO, (), ())), ((x,), ("call", MACRO, (), ())), ((y,), ("call", MACRO, (V(x),), ()))]
        a["filter"] = [True]
        a["bset"] = [x, y]
        a["nsnew"] = [V(x)]
        a["nsset"] = [V(x), ("add1", ("nsget", NS, "x"))]
        a["recfor"] = [x]
    elif profile == "core":
        x, y = P[0], P[1]
        a["out"] = [V(x), V(y)]
        a["set"] = [(x, C(1)), (x, V(y))]
        a["if"] = [(("flag", "f"),)]
        a["for"] = [(y, "l12", None)]
        a["with"] = [(), ((x, V(y)),)]
        a["macro"] = [(), ((x, None),)]
        a["call"] = [("call", MACRO, (), ()), ("call", MACRO, (V(y),), ())]
    elif profile == "tiny":
        # scoping skeleton: two variables, one variant of each basic scope kind
        x, y = P[0], P[1]
        a["out"] = [V(x), V(y)]
        a["set"] = [(x, C(1)), (y, V(x))]
        a["if"] = [(("flag", "f"),)]
        a["for"] = [(y, "l12", None)]
        a["with"] = [()]
        a["macro"] = [()]
        a["call"] = [("call", MACRO, (), ())]
    elif profile == "tiny2":
        # capture scopes and the namespace store: block set, filter block, recursive loop
        x = P[0]
        a["out"] = [V(x), ("nsget", NS, "x")]
        a["set"] = [(x, C(1))]
        a["nsnew"] = [V(x)]
        a["nsset"] = [("add1", ("nsget", NS, "x"))]
        a["for"] = [(x, "l12", None)]
        a["bset"] = [x]
        a["filter"] = [True]
        a["recfor"] = [x]
    elif profile == "tiny3":
        # macros: parameters, defaults, call blocks, caller
        x, y = P[0], P[1]
        a["out"] = [V(x)]
        a["set"] = [(x, C(1)), (y, C(2))]
        a["macro"] = [((x, None),), ((x, V(y)),), ((x, V(x)),)]
        a["call"] = [("call", MACRO, (), ()), ("call", MACRO, (V(y),), ())]
        a["caller"] = [("caller", ()), ("caller", (V(x),))]
        a["callblock"] = [((y,), ("call", MACRO, (), ())), (((x, V(x)),), ("call", MACRO, (), ()))]
        a["with"] = [((y, V(x)),)]
        a["for"] = [(x, "l12", None)]
        a["loopctl"] = [("break",)]
        a["if"] = [(("flag", "f"),)]
    elif profile == "macro5":
        # one variable and one parameterless macro: closure capture, enumerated deepest
        x = P[0]
        a["out"] = [V(x)]
        a["set"] = [(x, C(1)), (x, ("add1", V(x)))]
        a["macro"] = [()]
        a["call"] = [("call", MACRO, (), ())]
    elif profile == "deep1":
        # one variable, the scope-opening statements only: enumerated deepest
        x = P[0]
        a["out"] = [V(x)]
        a["set"] = [(x, C(1)), (x, ("add1", V(x)))]
        a["if"] = [(("flag", "f"),)]
        a["for"] = [(x, "l12", None)]
        a["with"] = [()]
    elif profile == "alias5":
        # three variables chained by copies, for the deepest bound
        x, y, z = P[0], P[1], P[2]
        a["out"] = [V(x), V(y), V(z)]
        a["set"] = [(x, C(1)), (y, V(x)), (z, V(y))]
        a["for"] = [(z, "l12", None)]
        a["with"] = [()]
    elif profile == "alias":
        a["out"] = [V(v) for v in P]
        a["set"] = [(v, C(1)) for v in P] + [(v, V(w)) for v, w in pairs]
        a["if"] = [(("flag", "f"),)]
        a["for"] = [(v, "l12", None) for v in P]
        a["with"] = [()]
    else:
        raise ValueError(profile)
    return a


class _Enum:
    """memoised enumeration of statements / statement lists by exact node count."""

    def __init__(self, pool, profile, max_depth):
        self.al = alphabet(pool, profile)
        self.max_depth = max_depth
        self._stmts = {}
        self._lists = {}

    # ctx = (depth of enclosing compounds, in_loop, in_macro)
    def leaves(self, ctx):
        al = self.al
        d, in_loop, in_macro = ctx
        out = [("out", e) for e in al.get("out", ())]
        out += [("set", v, e) for v, e in al.get("set", ())]
        out += [("out", c) for c in al.get("call", ())]
        out += [("nsnew", NS, e) for e in al.get("nsnew", ())]
        out += [("nsset", NS, "x", e) for e in al.get("nsset", ())]
        if in_loop:
            out += list(al.get("loopctl", ()))
        if in_macro:
            out += [("out", c) for c in al.get("caller", ())]
        return out

    def stmts(self, n, ctx):
        """all statements with exactly n nodes in context ctx."""
        key = (n, ctx)
        r = self._stmts.get(key)
        if r is None:
            r = self._stmts[key] = tuple(self._gen_stmts(n, ctx))
        return r

    def lists(self, n, ctx):
        """all statement lists with exactly n nodes in context ctx."""
        key = (n, ctx)
        r = self._lists.get(key)
        if r is None:
            r = self._lists[key] = tuple(self._gen_lists(n, ctx))
        return r

    def _gen_lists(self, n, ctx):
        if n == 0:
            yield ()
            return
        for k in range(1, n + 1):
            for first in self.stmts(k, ctx):
                for rest in self.lists(n - k, ctx):
                    yield (first,) + rest

    def _gen_stmts(self, n, ctx):
        d, in_loop, in_macro = ctx
        if n == 1:
            yield from self.leaves(ctx)
        if d >= self.max_depth:
            return
        al = self.al
        m = n - 1  # nodes available for the bodies
        plain = (d + 1, False, in_macro)  # new scope, not directly a loop body
        # if: shares loop-control and macro context
        sub = (d + 1, in_loop, in_macro)
        for conds in al.get("if", ()):
            arms = len(conds)
            mm = n - arms
            if mm < 0:
                continue
            # distribute mm nodes over arms bodies + else (else may be empty = absent)
            for split in _splits(mm, arms + 1):
                for bs in itertools.product(*[self.lists(s, sub) for s in split]):
                    yield ("if", tuple(zip(conds, bs[:arms])), bs[arms] or None)
        for v, seq, cond in al.get("for", ()):
            body_ctx = (d + 1, bool(al.get("loopctl")), in_macro)
            for s0 in range(m + 1):
                for body in self.lists(s0, body_ctx):
                    for els in self.lists(m - s0, plain):
                        yield ("for", v, seq, cond, body, els or None)
        for binds in al.get("with", ()):
            for body in self.lists(m, plain):
                yield ("with", binds, body)
        for params in al.get("macro", ()):
            for body in self.lists(m, (d + 1, False, bool(al.get("caller")))):
                yield ("macro", MACRO, params, body)
        for cparams, call in al.get("callblock", ()):
            for body in self.lists(m, (d + 1, False, False)):
                yield ("callblock", cparams, call, body)
        for _ in al.get("filter", ()):
            for body in self.lists(m, plain):
                yield ("filter", body)
        for v in al.get("bset", ()):
            for body in self.lists(m, plain):
                yield ("bset", v, body)
        for v in al.get("recfor", ()):
            for body in self.lists(m, plain):
                yield ("recfor", v, body)


def _splits(total, parts):
    """all tuples of `parts` non-negative ints summing to total (lexicographic)."""
    if parts == 1:
        yield (total,)
        return
    for i in range(total + 1):
        for rest in _splits(total - i, parts - 1):
            yield (i,) + rest


_ENUMS = {}


def _enum(pool, profile, max_depth):
    key = (tuple(pool), profile, max_depth)
    e = _ENUMS.get(key)
    if e is None:
        e = _ENUMS[key] = _Enum(tuple(pool), profile, max_depth)
    return e


TOP = (0, False, False)


PROFILES = ("full", "mid", "core", "tiny", "tiny2", "tiny3", "macro5", "deep1", "alias5", "alias")
SYMMETRIC_PROFILES = ("full", "alias")


def programs(max_nodes, pool=POOL2, profile="mid", max_depth=3, shard=None, canonical=None, min_nodes=0):
    """Every program with min_nodes..max_nodes statement nodes and nesting <= max_depth over the
    profile's alphabet, simplest (fewest nodes) first, in a fixed order.

    shard=(k, K) selects the programs (first statement, rest) with index(first) + index(rest)
    = k (mod K), indices taken in the lists of all first statements / all rests of that size
    (the empty program belongs to shard 0); the shards are disjoint, balanced, and their
    union is the whole space."""
    en = _enum(pool, profile, max_depth)
    k0, K = shard if shard is not None else (0, 1)
    if canonical is None:
        canonical = profile in SYMMETRIC_PROFILES
    for total in range(min_nodes, max_nodes + 1):
        if total == 0:
            if k0 == 0:
                yield ()
            continue
        for k in range(1, total + 1):
            firsts = en.stmts(k, TOP)
            rests = en.lists(total - k, TOP)
            nr = len(rests)
            for i, first in enumerate(firsts):
                if canonical and not is_canonical((first,), pool):
                    continue
                for j in range((k0 - i) % K, nr, K):
                    prog = (first,) + rests[j]
                    if canonical and not is_canonical(prog, pool):
                        continue
                    yield prog


def count(max_nodes, pool=POOL2, profile="mid", max_depth=3, canonical=None, min_nodes=0):
    n = 0
    for _ in programs(max_nodes, pool, profile, max_depth, None, canonical, min_nodes):
        n += 1
    return n


# --------------------------------------------------------------------------- R-stmt

class Undef:
    __slots__ = ("name",)

    def __init__(self, name):
        self.name = name


class _NS:
    __slots__ = ("attrs",)

    def __init__(self):
        self.attrs = {}


class _Macro:
    __slots__ = ("name", "params", "body", "scope", "uses_caller", "marks", "node")

    def __init__(self, name, params, body, scope, uses_caller, marks, node):
        self.name = name
        self.params = params
        self.body = body
        self.scope = scope
        self.uses_caller = uses_caller
        self.marks = marks
        self.node = node


class _Loop:
    __slots__ = ("var", "body", "scope", "node")

    def __init__(self, var, body, scope, node):
        self.var = var
        self.body = body
        self.scope = scope
        self.node = node


class _Scope:
    __slots__ = ("vars", "parent", "data", "refs")

    def __init__(self, parent=None, data=None):
        self.vars = {}
        self.parent = parent
        self.data = data
        self.refs = None  # only used by the diagnosis variant

    def lookup(self, name):
        s = self
        while s is not None:
            if name in s.vars:
                return s.vars[name]
            if s.parent is None:
                if name in s.data:
                    return s.data[name]
            s = s.parent
        return Undef(name)


class _Raise(Exception):
    def __init__(self, cls):
        self.cls = cls


class _Break(Exception):
    pass


class _Continue(Exception):
    pass


def _to_str(v):
    if isinstance(v, Undef):
        return ""
    if isinstance(v, bool):
        return "True" if v else "False"
    if isinstance(v, int):
        return str(int(v))
    if isinstance(v, str):
        return v
    raise AssertionError("unprintable model value %r" % (v,))


def _truth(v):
    if isinstance(v, Undef):
        return False
    return bool(v)


def _mentions_caller(body):
    """does `caller` occur anywhere in the body (nested macros included)?"""
    for s in body:
        if s[0] == "out" and s[1][0] == "caller":
            return True
        for b in bodies(s):
            if _mentions_caller(b):
                return True
    return False


# ---- diagnosis variant (NOT an oracle) ------------------------------------------
# interpret(..., variant="late-store") reproduces one specific deviation of the
# implementation so that a mismatch can be given a narrow signature: in a scope
# whose own code (nested scopes excluded) mentions a name for the first time as the
# target of an unconditional assignment, and no enclosing scope's own code mentions
# that name, the name is undefined from scope entry until the assignment runs, even
# when the render data defines it; nested scopes reading it early see undefined.

def _own_refs_expr(e, acc):
    k = e[0]
    if k in ("v", "def", "odd"):
        acc.append((e[1], "load"))
    elif k == "cat":
        _own_refs_expr(e[1], acc)
        _own_refs_expr(e[2], acc)
    elif k == "add1":
        _own_refs_expr(e[1], acc)
    elif k == "nsget":
        acc.append((e[1], "load"))
    elif k == "call":
        acc.append((e[1], "load"))
        for a in e[2]:
            _own_refs_expr(a, acc)
        for _, a in e[3]:
            _own_refs_expr(a, acc)
    elif k == "caller":
        acc.append(("caller", "load"))
        for a in e[1]:
            _own_refs_expr(a, acc)


def _own_refs(stmts, acc, branch=False):
    st_kind = "bstore" if branch else "store"
    for st in stmts:
        k = st[0]
        if k == "out":
            _own_refs_expr(st[1], acc)
        elif k == "set":
            _own_refs_expr(st[2], acc)
            acc.append((st[1], st_kind))
        elif k == "bset":
            acc.append((st[1], st_kind))
        elif k == "if":
            for cond, b in st[1]:
                _own_refs_expr(cond, acc)
            for cond, b in st[1]:
                _own_refs(b, acc, True)
            if st[2]:
                _own_refs(st[2], acc, True)
        elif k == "with":
            for _, e in st[1]:
                _own_refs_expr(e, acc)
        elif k == "macro":
            acc.append((st[1], st_kind))
        elif k == "callblock":
            _own_refs_expr(st[2], acc)
        elif k == "nsnew":
            _own_refs_expr(st[2], acc)
            acc.append((st[1], st_kind))
        elif k == "nsset":
            _own_refs_expr(st[3], acc)
            acc.append((st[1], "load"))
        elif k == "recfor":
            acc.append((TREE, "load"))


def _frame_info(own, params, extra_loads=()):
    """(names the frame's own code mentions, names first mentioned by an unconditional store)"""
    acc = []
    for e in extra_loads:
        _own_refs_expr(e, acc)
    _own_refs(own, acc)
    first = {}
    for n, kind in acc:
        first.setdefault(n, kind)
    refs = set(first) | set(params)
    early = [n for n, kind in first.items() if kind == "store" and n not in params]
    return refs, early


def _frames_of(st):
    """nested frames opened by one statement: list of (own statements, params, extra loads)."""
    k = st[0]
    if k == "bset":
        return [(st[2], (), ())]
    if k == "for":
        fr = [(st[4], (st[1],), ())]
        if st[3] is not None:
            fr.append(((), (st[1],), (st[3],)))
        if st[5]:
            fr.append((st[5], (), ()))
        return fr
    if k == "with":
        return [(st[2], tuple(n for n, _ in st[1]), ())]
    if k == "macro":
        ps = tuple(p for p, _ in st[2]) + (("caller",) if _mentions_caller(st[3]) else ())
        return [(st[3], ps, tuple(d for _, d in st[2] if d is not None))]
    if k == "callblock":
        cps = cparams(st)
        return [(st[3], tuple(p for p, _ in cps), tuple(d for _, d in cps if d is not None))]
    if k == "filter":
        return [(st[1], (), ())]
    if k == "recfor":
        return [(st[2], (st[1], "loop"), ())]
    return []


def _reads_below(stmts, name, own_level):
    """is `name` read (load) in a frame nested inside `stmts`?  own_level=True: the
    statements themselves belong to the enclosing frame (only deeper frames count);
    a frame that declares `name` as a parameter hides the outer name for its subtree."""
    for st in stmts:
        if st[0] == "if":
            for _, b in st[1]:
                if _reads_below(b, name, own_level):
                    return True
            if st[2] and _reads_below(st[2], name, own_level):
                return True
            continue
        for own, params, extra in _frames_of(st):
            if name in params:
                continue
            acc = []
            for e in extra:
                _own_refs_expr(e, acc)
            _own_refs(own, acc)
            if any(n == name and kind == "load" for n, kind in acc):
                return True
            if _reads_below(own, name, True):
                return True
    return False


def _late_store_hits(own, params, extra, outer_refs, hits):
    refs, early = _frame_info(own, params, extra)
    for n in early:
        if any(n in r for r in outer_refs):
            continue
        # index of the own-level statement that holds the first mention (the store)
        for idx, st in enumerate(own):
            acc = []
            _own_refs([st], acc)
            if any(m == n for m, _ in acc):
                break
        before = list(own[:idx])
        if own[idx][0] == "bset":
            before.append(own[idx])
        if _reads_below(before, n, True):
            hits.append(n)
    for st in _walk_own(own):
        for o, ps, ex in _frames_of(st):
            _late_store_hits(o, ps, ex, outer_refs + [refs], hits)


def _walk_own(stmts):
    """statements of a frame's own level (if-branches flattened)."""
    for st in stmts:
        yield st
        if st[0] == "if":
            for _, b in st[1]:
                yield from _walk_own(b)
            if st[2]:
                yield from _walk_own(st[2])


def late_store_pattern(prog):
    """Structural predicate for the known deviation `late-store` (decided on the program
    only): names n such that some frame's own code mentions n for the first time as the
    target of an unconditional assignment (set / block set / macro / namespace creation,
    not inside an `if`), no enclosing frame's own code mentions n, and a frame nested in
    an earlier statement of that frame (or in the body of that very block set) reads n.
    Returns the list of such names (empty = pattern absent)."""
    hits = []
    _late_store_hits(tuple(prog), (), (), [], hits)
    return hits


def loopctl_else_pattern(prog):
    """Structural predicate for the (fixed) deviation `ctl-else`: a for loop with an else
    block whose body contains break or continue at loop level."""
    def has_ctl(stmts):
        for st in stmts:
            if st[0] in ("break", "continue"):
                return True
            if st[0] == "if":
                if any(has_ctl(b) for _, b in st[1]) or (st[2] and has_ctl(st[2])):
                    return True
        return False

    for st in prog:
        if st[0] == "for" and st[5] and has_ctl(st[4]):
            return True
        for b in bodies(st):
            if loopctl_else_pattern(b):
                return True
    return False


class _Interp:
    def __init__(self, variant=None):
        self.variant = frozenset([variant] if isinstance(variant, str) else (variant or ()))
        self.depth = 0

    # -- scopes
    def scope(self, parent, own, params=(), extra_loads=(), data=None):
        sc = _Scope(parent, data)
        if "late-store" in self.variant:
            refs, early = _frame_info(own, params, extra_loads)
            sc.refs = refs
            for n in early:
                p = parent
                while p is not None and n not in p.refs:
                    p = p.parent
                if p is None:
                    sc.vars[n] = Undef(n)
        return sc

    # -- expressions
    def eval(self, e, sc):
        k = e[0]
        if k == "c":
            return e[1]
        if k == "v" or k == "flag":
            return sc.lookup(e[1])
        if k == "cat":
            return _to_str(self.eval(e[1], sc)) + _to_str(self.eval(e[2], sc))
        if k == "add1":
            v = self.eval(e[1], sc)
            if isinstance(v, Undef):
                raise _Raise("UndefinedError")
            if isinstance(v, int):  # bool included, as in Python
                return int(v) + 1
            raise _Raise("TypeError")  # str + int
        if k == "def":
            return not isinstance(sc.lookup(e[1]), Undef)
        if k == "odd":
            v = sc.lookup(e[1])
            if isinstance(v, Undef):
                raise _Raise("UndefinedError")
            if isinstance(v, int):
                return int(v) % 2 == 1
            raise _Raise("TypeError")
        if k == "nsget":
            v = sc.lookup(e[1])
            if isinstance(v, Undef):
                raise _Raise("UndefinedError")
            if isinstance(v, _NS):
                return v.attrs.get(e[2], Undef(e[2]))
            return Undef(e[2])
        if k == "call":
            f = sc.lookup(e[1])
            args = [self.eval(a, sc) for a in e[2]]
            kwargs = [(kw, self.eval(a, sc)) for kw, a in e[3]]
            return self.call(f, args, kwargs, None)
        if k == "caller":
            f = sc.lookup("caller")
            args = [self.eval(a, sc) for a in e[1]]
            return self.call(f, args, [], None)
        raise ValueError(e)

    MAX_CALL_DEPTH = 40

    def call(self, f, args, kwargs, caller):
        self.depth += 1
        try:
            if self.depth > self.MAX_CALL_DEPTH:
                # a program of a handful of nodes that nests macro calls this deep recurses forever
                raise _Raise("RecursionError")
            return self.call1(f, args, kwargs, caller)
        finally:
            self.depth -= 1

    def call1(self, f, args, kwargs, caller):
        if isinstance(f, Undef):
            raise _Raise("UndefinedError")
        if not isinstance(f, _Macro):
            raise _Raise("TypeError")
        names = [p for p, _ in f.params]
        if len(args) > len(names):
            raise _Raise("TypeError")
        given = dict(zip(names, args))
        for kw, v in kwargs:
            if kw not in names or kw in given:
                raise _Raise("TypeError")
            given[kw] = v
        if not f.uses_caller and caller is not None:
            raise _Raise("TypeError")
        params = list(names) + (["caller"] if f.uses_caller else [])
        sc = self.scope(f.scope, f.body, params, [d for _, d in f.params if d is not None])
        if f.uses_caller:
            sc.vars["caller"] = caller if caller is not None else Undef("caller")
        # all parameters are local names from the start; the ones not provided are
        # undefined until their default has been evaluated, left to right, in the
        # macro's own scope  # CALIBRATED (docs only show constant defaults)
        for p in names:
            sc.vars[p] = given[p] if p in given else Undef(p)
        for p, d in f.params:
            if p not in given and d is not None:
                sc.vars[p] = self.eval(d, sc)
        out = [f.marks[0]]
        self.exec(f.body, sc, out)
        out.append(f.marks[1])
        return "".join(out)

    def render_loop(self, lp, items, out):
        self.depth += 1
        try:
            if self.depth > self.MAX_CALL_DEPTH:
                # the tree has two levels: recursing this deep means the body keeps
                # re-binding the loop variable to a node with children, forever
                raise _Raise("RecursionError")
            self.render_loop1(lp, items, out)
        finally:
            self.depth -= 1

    def render_loop1(self, lp, items, out):
        for item in items:
            it = self.scope(lp.scope, lp.body, (lp.var, "loop"))
            it.vars[lp.var] = item
            it.vars["loop"] = lp
            out.append("[")
            self.exec(lp.body, it, out)
            # {{ loop(v.c) }}
            v = it.lookup(lp.var)
            if isinstance(v, Undef):
                raise _Raise("UndefinedError")
            if isinstance(v, T):
                buf = []
                self.render_loop(lp, v.c, buf)
                out.append("".join(buf))
            # any other value: `.c` is undefined, and iterating undefined gives no items
            out.append("]")

    def exec(self, prog, sc, out):
        for st in prog:
            k = st[0]
            if k == "out":
                out.append(_to_str(self.eval(st[1], sc)))
            elif k == "text":
                out.append(st[1])
            elif k == "set":
                sc.vars[st[1]] = self.eval(st[2], sc)
            elif k == "bset":
                buf = ["s"]
                self.exec(st[2], self.scope(sc, st[2]), buf)
                sc.vars[st[1]] = "".join(buf)
            elif k == "if":
                for i, (cond, body) in enumerate(st[1]):
                    if _truth(self.eval(cond, sc)):
                        out.append("i" if i == 0 else "j")
                        self.exec(body, sc, out)
                        break
                else:
                    if st[2]:
                        out.append("e")
                        self.exec(st[2], sc, out)
            elif k == "for":
                items = [1, 2] if st[2] == "l12" else []
                if st[3] is not None:
                    kept = []
                    for item in items:
                        ts = self.scope(sc, (), (st[1],), (st[3],))
                        ts.vars[st[1]] = item
                        if _truth(self.eval(st[3], ts)):
                            kept.append(item)
                    items = kept
                completed = 0
                for item in items:
                    it = self.scope(sc, st[4], (st[1],))
                    it.vars[st[1]] = item
                    out.append("(")
                    try:
                        self.exec(st[4], it, out)
                    except _Continue:
                        continue
                    except _Break:
                        break
                    out.append(")")
                    completed += 1
                run_else = not items
                if "ctl-else" in self.variant:
                    run_else = not completed
                if run_else and st[5]:
                    out.append("!")
                    self.exec(st[5], self.scope(sc, st[5]), out)
            elif k == "break":
                raise _Break()
            elif k == "continue":
                raise _Continue()
            elif k == "with":
                inner = self.scope(sc, st[2], tuple(n for n, _ in st[1]))
                for n, e in st[1]:
                    inner.vars[n] = self.eval(e, sc)
                out.append("w")
                self.exec(st[2], inner, out)
            elif k == "macro":
                sc.vars[st[1]] = _Macro(st[1], st[2], st[3], sc, _mentions_caller(st[3]), ("<", ">"), st)
            elif k == "callblock":
                cl = _Macro(None, cparams(st), st[3], sc, False, ("c", ";"), st)
                call = st[2]
                f = sc.lookup(call[1])
                args = [self.eval(a, sc) for a in call[2]]
                kwargs = [(kw, self.eval(a, sc)) for kw, a in call[3]]
                out.append(self.call(f, args, kwargs, cl))
            elif k == "filter":
                buf = ["x"]
                self.exec(st[1], self.scope(sc, st[1]), buf)
                out.append("".join(buf).upper())
            elif k == "nsnew":
                ns = _NS()
                ns.attrs["x"] = self.eval(st[2], sc)
                sc.vars[st[1]] = ns
            elif k == "nsset":
                tgt = sc.lookup(st[1])
                # the namespace check comes before the right-hand side is evaluated  # CALIBRATED
                if not isinstance(tgt, _NS):
                    raise _Raise("TemplateRuntimeError")
                tgt.attrs[st[2]] = self.eval(st[3], sc)
            elif k == "recfor":
                lp = _Loop(st[1], st[2], sc, st)
                buf = []
                self.render_loop(lp, sc.lookup(TREE), buf)
                out.append("".join(buf))
            else:
                raise ValueError(st)


VARIANTS = ("late-store", "ctl-else")


def interpret(prog, data, variant=None):
    """R-stmt: the text the documented scoping rules give for `prog` on `data`
    (a dict as produced by data_assignments(); `tree` is added if missing), or
    Failure(<exception class name>) when evaluation raises.

    variant=None is the reference.  A variant (a name from VARIANTS or a collection of
    them) is a *diagnosis aid* that reproduces one specific deviation of the
    implementation; it is only ever used to label a mismatch, never to accept one:
      "late-store"  see above
      "ctl-else"    the for-else block also runs when iterations took place but none
                    of them reached the end of the loop body (break / continue)"""
    d = dict(data)
    if TREE not in d:
        d[TREE] = make_tree()
    ip = _Interp(variant)
    top = ip.scope(None, prog, (), (), d)
    out = []
    try:
        ip.exec(prog, top, out)
    except _Raise as e:
        return Failure(e.cls)
    return "".join(out)


# --------------------------------------------------------------------------- loop-variable visibility
# A second, self-contained family (C03 "loopvis"): nests of for loops in which the special
# variable `loop` is read ONLY through a chosen set of "readers" - directly, or from inside
# every kind of scope that can be written in a loop body (if, with, filter block, block set,
# a macro defined in the loop body, a macro defined inside such a macro, a call block).
# docs/templates.rst, "For": `loop` is available "inside of a for-loop block"; "Macros" /
# scoping: nested scopes and macro bodies see enclosing variables, each loop has its own
# `loop`, so every reader must report the values of the innermost loop it is WRITTEN in.
#
# A program is a tuple of levels (outermost first); a level is a tuple of readers
# (wrapper, attr).  The first reader of a level is printed before the nested loop, the
# others after it.  Level i iterates LV_SEQS[i] (lengths differ so that levels are told apart).

LV_WRAPPERS = ("direct", "if", "with", "filter", "bset", "macro", "macro2", "callblock")
LV_ATTRS = ("index", "length", "revindex")
LV_SEQS = ((10, 20), (1, 2, 3), (5,))
LV_PROLOGUE = "{% macro wrap() %}[{{ caller() }}]{% endmacro %}"


def lv_readers(wrappers=LV_WRAPPERS, attrs=LV_ATTRS, extra=()):
    return tuple((w, a) for w in wrappers for a in attrs) + tuple(extra)


def lv_programs(depth, readers, kmax):
    """all nests of exactly `depth` loops, every level carrying 0..kmax readers (ordered,
    repetition allowed), at least one reader in the whole program."""
    per_level = [()]
    for k in range(1, kmax + 1):
        per_level += list(itertools.product(readers, repeat=k))
    for levels in itertools.product(per_level, repeat=depth):
        if any(levels):
            yield levels


def _lv_reader_source(r, uid):
    w, a = r
    e = "{{ loop.%s }}" % a
    if w == "direct":
        return "d" + e
    if w == "if":
        return "{% if true %}i" + e + "{% endif %}"
    if w == "with":
        return "{% with t = 1 %}w" + e + "{% endwith %}"
    if w == "filter":
        return "{% filter upper %}f" + e + "{% endfilter %}"
    if w == "bset":
        return "{% set s %}s" + e + "{% endset %}{{ s }}"
    if w == "macro":
        return "{%% macro m%s() %%}m%s{%% endmacro %%}{{ m%s() }}" % (uid, e, uid)
    if w == "macro2":
        return ("{%% macro m%s() %%}{%% macro n%s() %%}n%s{%% endmacro %%}{{ n%s() }}{%% endmacro %%}{{ m%s() }}"
                % (uid, uid, e, uid, uid))
    if w == "callblock":
        return "{% call wrap() %}c" + e + "{% endcall %}"
    raise ValueError(r)


def lv_source(levels):
    def rec(i):
        rs = [_lv_reader_source(r, "%d_%d" % (i, j)) for j, r in enumerate(levels[i])]
        inner = rec(i + 1) if i + 1 < len(levels) else ""
        return ("{%% for x%d in [%s] %%}({{ x%d }}" % (i, ", ".join(map(str, LV_SEQS[i])), i)
                + "".join(rs[:1]) + inner + "".join(rs[1:]) + "){% endfor %}")

    return LV_PROLOGUE + rec(0)


def lv_expected(levels):
    """reference: plain Python loops; a reader prints the counters of the loop it is written in."""
    tags = {"direct": "d", "if": "i", "with": "w", "bset": "s", "macro": "m", "macro2": "n"}

    def reader(r, vals):
        w, a = r
        v = str(vals[a])
        if w == "filter":
            return ("f" + v).upper()
        if w == "callblock":
            return "[c" + v + "]"
        return tags[w] + v

    def rec(i):
        seq = LV_SEQS[i]
        out = []
        for n, item in enumerate(seq):
            vals = {"index": n + 1, "length": len(seq), "revindex": len(seq) - n}
            rs = [reader(r, vals) for r in levels[i]]
            out.append("(%d" % item)
            out += rs[:1]
            if i + 1 < len(levels):
                out.append(rec(i + 1))
            out += rs[1:]
            out.append(")")
        return "".join(out)

    return rec(0)
