"""E3 — controlled thread scheduler (stateless, preemption-bounded, CHESS-style).

Real threading.Thread workers; exactly one runs at a time.  A trace function
(sys.settrace, per worker thread) hands control back to the scheduler at every
`line` event (optionally every `opcode` event) of frames selected by
`want(frame)`.  `CoopLock` replaces jinja2.utils.Lock: a blocked acquire is
reported to the scheduler instead of blocking the OS thread.

run(programs, prefix) executes one schedule: `prefix` is the list of choice
indices taken at the scheduling points so far; afterwards choice 0 (keep the
running thread if it is still enabled, else the lowest enabled id) is taken.
explore() enumerates every schedule within a preemption bound.
"""
from __future__ import annotations

import sys
import threading

from .core import HarnessError

WAIT = 180.0  # seconds (wall) before a baton wait is declared a harness hang; generous because CI machines are loaded


def _baton():
    """binary semaphore, initially 0: a raw lock is ~5x cheaper than
    threading.Semaphore (pure Python, and traced)."""
    lk = threading.Lock()
    lk.acquire()
    return lk


class Deadlock(Exception):
    pass


class _Abort(BaseException):
    pass


class CoopLock:
    """Non-reentrant lock owned by the scheduler (jinja2.utils.Lock stand-in)."""

    sched: "Scheduler | None" = None  # set by the active scheduler

    _n = 0

    def __init__(self):
        self.owner = None
        s = CoopLock.sched
        # creation-order label that is stable across executions of one harness
        self.serial = None if s is None else s.next_lock_serial()

    def acquire(self, blocking=True, timeout=-1):
        s = CoopLock.sched
        tid = s.current_tid() if s is not None else None
        if s is None or tid is None:
            # free-running (outside an exploration): behave like a plain flag
            if self.owner is not None:
                raise HarnessError("CoopLock contended outside scheduler")
            self.owner = "free"
            return True
        s.yield_point(tid, ("lock", self.serial))  # scheduling point before the acquire
        while self.owner is not None:
            if not blocking:
                return False
            s.block_on(tid, self)
        self.owner = tid
        return True

    def release(self):
        self.owner = None

    def __enter__(self):
        self.acquire()
        return self

    def __exit__(self, *a):
        self.release()

    def locked(self):
        return self.owner is not None


class Execution:
    def __init__(self):
        self.points = []  # (enabled tids in canonical order, running_still_enabled)
        self.choices = []
        self.history = []  # (tid, opidx, call_t, ret_t, result)
        self.deadlock = False
        self.trace = []  # (tid, where) per step, for replay comparison
        self.errors = []

    def preemptions_before(self, i):
        n = 0
        for j in range(i):
            if self.choices[j] != 0 and self.points[j][1]:
                n += 1
        return n


class Scheduler:
    def __init__(self, want, opcode_want=None, record_trace=True):
        self.want = want
        self.opcode_want = opcode_want
        self.record_trace = record_trace

    def next_lock_serial(self):
        self._lockn = getattr(self, "_lockn", 0) + 1
        return self._lockn

    # -- called from worker threads -------------------------------------
    def current_tid(self):
        return getattr(self._tls, "tid", None)

    def _handoff(self, tid):
        self._back.release()
        if not self._go[tid].acquire(timeout=WAIT):
            raise _Abort()
        if self._abort:
            raise _Abort()

    def yield_point(self, tid, where):
        self._clock += 1
        if self.record_trace:
            self._x.trace.append((tid, where))
        # no choice to make if every other thread is finished
        if self._alive == 1:
            return
        self._state[tid] = "ready"
        self._handoff(tid)

    def block_on(self, tid, lock):
        self._state[tid] = ("blocked", lock)
        self._handoff(tid)

    def _tracer(self, frame, event, arg):
        # global trace function: decide per frame
        if event != "call":
            return None
        if not self.want(frame):
            return None
        if self.opcode_want is not None and self.opcode_want(frame):
            frame.f_trace_opcodes = True
        return self._local

    def _local(self, frame, event, arg):
        if event == "line" or event == "opcode":
            tid = self._tls.tid
            self.yield_point(tid, (frame.f_code.co_name, frame.f_lineno, frame.f_lasti if event == "opcode" else -1))
        return self._local

    def _worker(self, tid, pool):
        """persistent worker: parked on its baton between executions."""
        self._tls.tid = tid
        go = pool["go"][tid]
        while True:
            go.acquire()
            if pool["dead"]:
                return
            program = self._programs[tid]
            aborted = False
            try:
                sys.settrace(self._tracer)
                try:
                    for i, op in enumerate(program):
                        self._clock += 1
                        t_call = self._clock
                        try:
                            r = op()
                        except _Abort:
                            raise
                        except Exception as e:  # noqa: BLE001 - the oracle judges
                            r = ("exc", type(e).__name__)
                        self._clock += 1
                        self._x.history.append((tid, i, t_call, self._clock, r))
                finally:
                    sys.settrace(None)
            except _Abort:
                aborted = True
            except BaseException as e:  # harness bug
                self._x.errors.append(repr(e))
            if aborted or pool["dead"]:
                return
            self._state[tid] = "done"
            self._alive -= 1
            pool["back"].release()

    # -- scheduler side -----------------------------------------------------
    def _enabled(self, running):
        en = []
        for tid, st in enumerate(self._state):
            if st == "done":
                continue
            if isinstance(st, tuple) and st[0] == "blocked" and st[1].owner is not None:
                continue
            en.append(tid)
        if running is not None and running in en:
            en.remove(running)
            en.insert(0, running)
            return en, True
        return en, False

    def _pool_for(self, n):
        pool = getattr(self, "_pool", None)
        if pool is None or pool["dead"] or pool["n"] != n:
            if pool is not None:
                self._kill_pool(pool)
            pool = self._pool = {"n": n, "dead": False, "go": [_baton() for _ in range(n)], "back": _baton()}
            self._tls = threading.local()
            pool["threads"] = [threading.Thread(target=self._worker, args=(i, pool), daemon=True) for i in range(n)]
            for t in pool["threads"]:
                t.start()
        return pool

    def _kill_pool(self, pool):
        pool["dead"] = True
        self._abort = True
        for g in pool["go"]:
            try:
                g.release()
            except RuntimeError:
                pass
        for t in pool["threads"]:
            t.join(timeout=1.0)

    def close(self):
        pool = getattr(self, "_pool", None)
        if pool is not None and not pool["dead"]:
            self._kill_pool(pool)
        self._pool = None

    def run(self, programs, prefix=()):
        n = len(programs)
        x = self._x = Execution()
        self._abort = False
        pool = self._pool_for(n)
        self._go = pool["go"]
        self._back = pool["back"]
        self._programs = list(programs)
        self._state = ["ready"] * n
        self._alive = n
        self._clock = 0
        self._lockn = 0
        CoopLock.sched = self
        running = None
        try:
            while True:
                en, still = self._enabled(running)
                if not en:
                    if any(st != "done" for st in self._state):
                        x.deadlock = True
                    break
                if len(en) > 1:
                    k = len(x.points)
                    c = prefix[k] if k < len(prefix) else 0
                    if c >= len(en):
                        raise HarnessError(f"replay divergence: choice {c} of {en} at point {k}")
                    x.points.append((tuple(en), still))
                    x.choices.append(c)
                    nxt = en[c]
                else:
                    nxt = en[0]
                running = nxt
                self._go[nxt].release()
                if not self._back.acquire(timeout=WAIT):
                    raise HarnessError("scheduler: worker did not hand back (hang)")
        finally:
            if any(st != "done" for st in self._state):
                # deadlock or harness failure: the parked/blocked threads are abandoned
                self._kill_pool(pool)
            CoopLock.sched = None
        if x.errors:
            raise HarnessError("worker error: " + "; ".join(x.errors))
        return x


def explore(make_run, bound, on_execution, max_schedules=None):
    """make_run(prefix) -> Execution (fresh shared state each time).
    Enumerates all schedules with <= bound preemptions.  Returns
    (schedules, capped)."""
    stack = [()]
    count = 0
    while stack:
        prefix = stack.pop()
        x = make_run(prefix)
        count += 1
        on_execution(x)
        if max_schedules is not None and count >= max_schedules:
            return count, True
        for i in range(len(prefix), len(x.points)):
            en, still = x.points[i]
            cost = x.preemptions_before(i)
            if still:
                cost += 1
            if cost > bound:
                continue
            for alt in range(1, len(en)):
                stack.append(tuple(x.choices[:i]) + (alt,))
    return count, False


def linearizable(history, init_model, apply_model, snapshot=None, final=None):
    """Brute-force linearizability: is there a total order of the operations,
    consistent with real time (a.ret < b.call => a before b), under which the
    sequential model returns exactly the recorded results (and, if `final` is
    given, ends in that abstract state)?  history: (tid, opidx, call, ret,
    result, op) tuples."""
    ops = list(history)
    n = len(ops)
    used = [False] * n

    def rec(model, done):
        if done == n:
            return final is None or snapshot(model) == final
        for i in range(n):
            if used[i]:
                continue
            # i may go next only if no unused op returned before i was called
            ok = True
            for j in range(n):
                if not used[j] and j != i and ops[j][3] < ops[i][2]:
                    ok = False
                    break
            if not ok:
                continue
            m2 = init_model(model)
            r = apply_model(m2, ops[i][5])
            if r != ops[i][4]:
                continue
            used[i] = True
            if rec(m2, done + 1):
                used[i] = False
                return True
            used[i] = False
        return False

    return rec(init_model(None), 0)
