"""Structural template skeletons + the reference whitespace model R-ws.

Shared by C12 (rendered output), C39 (raw token stream), C13 (delimiter
translation) and C11(b) (comment / raw bodies).

A *skeleton* is a tuple  (chunk0, tag1, chunk1, ..., tagN, chunkN)  of
alternating text chunks (str) and tags.  A tag is a tuple

    (kind, l, r)            kind in block / comment / var (+ "_ml" / "_str"
                            variants with line breaks inside the tag)
    (kind, l, r, inner[, out])
                            same, explicit text between the delimiters (and, for
                            a variable tag, the text it renders)
    ("raw", ol, or_, body, cl, cr)
                            {%ol raw or_%}body{%cl endraw cr%}

l / r (ol, or_, cl, cr) are the whitespace-control modifiers "", "-" or "+"
written directly inside the delimiters.

R-ws (`cut`, `layout`, `expected`, `removed_spans`) works on the skeleton, never on source
text.  It is written from docs/templates.rst "Whitespace Control" and the
`trim_blocks` / `lstrip_blocks` / `keep_trailing_newline` entries of the
Environment docstring:

  R1  a "-" on a tag side removes all whitespace adjacent to the tag on that side;
  R2  trim_blocks removes the first newline directly after a block tag
      (block, comment, endraw - not a variable tag) unless that side has "+";
  R3  lstrip_blocks removes the whitespace between the start of a line and
      a block tag (block, comment, raw, endraw - not a variable tag) when nothing
      else precedes the tag on that line, unless that side has "+";
  R4  a single trailing newline of the template is removed unless
      keep_trailing_newline;
  R5  everything else, in particular all non-whitespace, is returned unchanged.

Points where the documentation is silent and the pinned tree was read
(each also tagged CALIBRATED below):

  K1  "whitespace" is str.isspace() (docs say "tabs and spaces" for lstrip);
  K2  the newline after an *opening* raw tag is never trimmed by trim_blocks
      ("the body of a raw block stays verbatim");
  K3  lstrip_blocks applies to the endraw tag too, i.e. it removes the
      indentation that ends the raw body's last line;
  K4  the beginning of the template counts as the start of a line for R3.
"""
from __future__ import annotations

import itertools

DEFAULT = {"block": ("{%", "%}"), "var": ("{{", "}}"), "comment": ("{#", "#}")}

# six delimiter sets for C13(i) / C39; all must print every skeleton unambiguously
DELIMS = {
    "default": DEFAULT,
    "asp": {"block": ("<%", "%>"), "var": ("<%=", "%>"), "comment": ("<%#", "%>")},
    "multi": {"block": ("[[%", "%]]"), "var": ("[[[", "]]]"), "comment": ("[[#", "#]]")},
    "dollar": {"block": ("{%", "%}"), "var": ("${", "}"), "comment": ("{#", "#}")},
    "php": {"block": ("<?", "?>"), "var": ("<?=", "?>"), "comment": ("<!--", "-->")},
    "prefix": {"block": ("<#%", "%#>"), "var": ("<#=", "=#>"), "comment": ("<#", "#>")},
}


def env_kwargs(delims):
    return {
        "block_start_string": delims["block"][0], "block_end_string": delims["block"][1],
        "variable_start_string": delims["var"][0], "variable_end_string": delims["var"][1],
        "comment_start_string": delims["comment"][0], "comment_end_string": delims["comment"][1],
    }


CHUNKS = ("", "a", " ", "\n", " \n ", "a \n", "\n  ", "  a  ", "\t", "a\n\nb")
CHUNKS_EXTRA = ("\xa0", "\x0b", "\n\n")  # thorough: whitespace by str.isspace, not "tabs and spaces"; two line breaks
# whitespace other than space/tab (form feed, vertical tab, NBSP, EM SPACE): str.isspace, not "tabs and spaces" (K1)
CHUNKS_WS = ("\xa0", "\x0b ", "\n\x0c", "a\n\u2003")
CHUNKS_SMALL = ("", "a", " \n ", "\n  ")
CHUNKS_MID = ("", "a", " \n ", "\n  ", "a \n")

INNER = {
    "block": " set v = 1 ",
    "block_ml": " set v =\n 1 ",
    "comment": " c ",
    "comment_ml": " c\n\n d ",
    "var": ' "V" ',
    "var_ml": " 1 +\n 2 ",
    "var_str": ' "x\ny" ',
}
OUTPUT = {"var": "V", "var_ml": "3", "var_str": "x\ny"}

MODS_BLOCK = [(l, r) for l in ("", "-", "+") for r in ("", "-", "+")]
MODS_VAR = [(l, r) for l in ("", "-") for r in ("", "-")]
# "+%}" on the opening raw tag is not admitted by the grammar (C01 territory)
MODS_RAW = [(ol, or_, cl, cr) for ol in ("", "-", "+") for or_ in ("", "-")
            for cl in ("", "-", "+") for cr in ("", "-", "+")]
MODS_RAW_OUTER = [(ol, "", "", cr) for ol in ("", "-", "+") for cr in ("", "-", "+")]


def base(kind):
    return kind.split("_")[0]


def tags(raw="full", raw_bodies=CHUNKS, kinds=("block", "comment", "var")):
    """Deterministic list of tag variants.

    raw = "full": every admitted modifier combination x raw_bodies;
          "outer": only the modifiers facing the neighbours vary x raw_bodies;
          "none": no raw tags."""
    out = []
    for k in kinds:
        for l, r in (MODS_VAR if base(k) == "var" else MODS_BLOCK):
            out.append((k, l, r))
    if raw != "none":
        for m in (MODS_RAW if raw == "full" else MODS_RAW_OUTER):
            for b in raw_bodies:
                out.append(("raw", m[0], m[1], b, m[2], m[3]))
    return out


def count(ntags, chunks, tagset):
    return len(chunks) ** (ntags + 1) * len(tagset) ** ntags


def skeletons(ntags, chunks=CHUNKS, tagset=None, shard=0, nshards=1, chunk_slots=None):
    """All skeletons with exactly `ntags` tags, in a fixed order (tag tuples in
    product order of `tagset`, then chunk tuples in product order).  Shard k of
    n gets the tag tuples whose index is k modulo n, each with all chunk tuples.

    chunk_slots: optional per-position chunk alphabets (len ntags+1)."""
    if tagset is None:
        tagset = tags()
    slots = chunk_slots if chunk_slots is not None else [chunks] * (ntags + 1)
    assert len(slots) == ntags + 1
    for i, tt in enumerate(itertools.product(tagset, repeat=ntags)):
        if i % nshards != shard:
            continue
        for cc in itertools.product(*slots):
            sk = [cc[0]]
            for t, c in zip(tt, cc[1:]):
                sk.append(t)
                sk.append(c)
            yield tuple(sk)


# --------------------------------------------------------------------------
# printer


def tag_source(tag, delims=DEFAULT):
    """Source pieces of one tag: list of (text, role); role in
    'tag' (delimiters + inside) / 'body' (raw body, a chunk)."""
    k = tag[0]
    if k == "raw":
        _, ol, or_, body, cl, cr = tag
        bs, be = delims["block"]
        return [(f"{bs}{ol} raw {or_}{be}", "tag"), (body, "body"), (f"{bs}{cl} endraw {cr}{be}", "tag")]
    l, r = tag[1], tag[2]
    inner = tag[3] if len(tag) > 3 else INNER[k]
    s, e = delims[base(k)]
    return [(f"{s}{l}{inner}{r}{e}", "tag")]


def to_source(skel, delims=DEFAULT):
    out = []
    for i, x in enumerate(skel):
        if i % 2 == 0:
            out.append(x)
        else:
            out.extend(t for t, _ in tag_source(x, delims))
    return "".join(out)


# --------------------------------------------------------------------------
# R-ws


def _is_ws(s):
    # CALIBRATED K1: whitespace = str.isspace (NBSP, \x0b ... included)
    return all(ch.isspace() for ch in s)


def _lead_ws(s):
    n = 0
    while n < len(s) and s[n].isspace():
        n += 1
    return n


def _trail_ws(s):
    n = 0
    while n < len(s) and s[len(s) - 1 - n].isspace():
        n += 1
    return n


def cut(chunk, left, right, trim, lstrip):
    """Which part of a text chunk survives.  left = None (start of template)
    or (modifier, subject_to_trim_blocks) describing the right side of the tag
    before the chunk; right = None (end of template) or (modifier,
    subject_to_lstrip_blocks) describing the left side of the tag after it.
    Returns (p, q): chunk[p:q] is kept, chunk[:p] and chunk[q:] are removed."""
    n = len(chunk)
    p = 0
    if left is not None:
        mod, trims = left
        if mod == "-":  # R1
            p = _lead_ws(chunk)
        elif trim and trims and mod != "+":  # R2
            if chunk.startswith("\n"):
                p = 1
    q = n
    if right is not None:
        mod, lstrips = right
        if mod == "-":  # R1
            q = n - _trail_ws(chunk)
        elif lstrip and lstrips and mod != "+":  # R3
            k = chunk.rfind("\n") + 1
            # the tag starts its line iff a newline precedes it inside this chunk, or
            # the chunk is the very beginning of the template (CALIBRATED K4); a
            # preceding tag on the same line is "other characters before the block"
            if _is_ws(chunk[k:]) and (k > 0 or left is None):
                q = k
    if q < p:
        q = p
    return p, q


def sides(tag):
    """[(left_descr, right_descr, body)] for the one or two delimiter pairs of a tag."""
    k = tag[0]
    if k == "raw":
        _, ol, or_, body, cl, cr = tag
        return ((ol, True), (or_, False)), body, ((cl, True), (cr, True))  # CALIBRATED K2 (False), K3 (True)
    blockish = base(k) != "var"
    return ((tag[1], blockish), (tag[2], blockish)), None, None


def layout(skel, trim_blocks=False, lstrip_blocks=False, keep_trailing_newline=False, delims=DEFAULT):
    """The template as a list of fragments  (source_text, role, out_text)  whose
    source_text concatenates to to_source(skel, delims):

      role "data"     kept text (out_text == source_text)
      role "lcut"     whitespace removed on the left of a tag (lstrip_blocks / "-" before the tag)
      role "rcut"     whitespace removed on the right of a tag (trim_blocks / "-" after the tag)
      role "eof"      the single trailing newline removed by R4
      role "tag"      a tag (out_text = what it renders: "", or the variable's value)
    """
    n = len(skel)
    frags = []

    def emit_chunk(chunk, left, right, last):
        eof = ""
        if last and not keep_trailing_newline and chunk.endswith("\n"):  # R4
            chunk, eof = chunk[:-1], "\n"
        p, q = cut(chunk, left, right, trim_blocks, lstrip_blocks)
        if p:
            frags.append((chunk[:p], "rcut", ""))
        if q > p:
            frags.append((chunk[p:q], "data", chunk[p:q]))
        if q < len(chunk):
            frags.append((chunk[q:], "lcut", ""))
        if eof:
            frags.append((eof, "eof", ""))

    left = None
    for i in range(0, n, 2):
        chunk = skel[i]
        tag = skel[i + 1] if i + 1 < n else None
        if tag is None:
            emit_chunk(chunk, left, None, True)
            break
        (open_l, open_r), body, close = sides(tag)
        emit_chunk(chunk, left, open_l, False)
        pieces = tag_source(tag, delims)
        if body is None:
            frags.append((pieces[0][0], "tag", tag[4] if len(tag) > 4 else OUTPUT.get(tag[0], "")))
            left = open_r
        else:
            frags.append((pieces[0][0], "tag", ""))
            emit_chunk(body, open_r, close[0], False)
            frags.append((pieces[2][0], "tag", ""))
            left = close[1]
    return frags


def expected(skel, trim_blocks=False, lstrip_blocks=False, keep_trailing_newline=False):
    """Rendered output predicted by R-ws (newline_sequence "\\n")."""
    return "".join(o for _, _, o in layout(skel, trim_blocks, lstrip_blocks, keep_trailing_newline))


def removed_spans(skel, trim_blocks=False, lstrip_blocks=False, keep_trailing_newline=False, delims=DEFAULT):
    """[(start, end, role)] offsets into to_source(skel, delims) of every span R-ws removes."""
    out = []
    pos = 0
    for text, role, _ in layout(skel, trim_blocks, lstrip_blocks, keep_trailing_newline, delims):
        if role in ("lcut", "rcut", "eof"):
            out.append((pos, pos + len(text), role))
        pos += len(text)
    return out


SETTINGS = [(False, False), (True, False), (False, True), (True, True)]


def jsonable(skel):
    return [list(x) if isinstance(x, tuple) else x for x in skel]
