"""gen_ctx — bounded-exhaustive generator of include / import / from-import
scenarios and the independent reference model R-ctx (context visibility and
module exports).

PUBLIC INTERFACE (stable; used by checks/c05.py, meant for C09/C16/C31/C32)

A *case* is a structural tuple, never source text.  Four families::

    ("inc",  ctx, ignore, target, placement, mglob, hglob, hshape)
    ("imp",  ctx, target, placement, mglob, hglob, hshape)
    ("from", ctx, target, variant, placement, mglob, hglob, hshape)
    ("mod",  how, hglob, hshape)
    ("seq",  first, placement, second, rvloc, mglob, hglob)

    ("shadow", stmt, var, where, mglob, hglob)

    family "shadow": the main template starts with a top-level {% set <var> = "S" %} that shadows a render argument
    (var "rv") or an environment global (var "eg"); then stmt (SEQ_FIRST: include / include with context /
    import with context / from-import with context of helper "h", shape ("pubm",)) sits at the top level
    (where "top") or inside {% block b %} (where "block").  The helper must see "S".

    family "seq" (two statements in sequence, main template WITHOUT any top-level assignment before them): a first
    statement that passes the live local `loc` to the helper inside a for / with / macro, then, after that scope has
    ended, a second statement that shows whether `loc` is still visible (it must not be; a render variable of the
    same name must be back).  first in SEQ_FIRST: "inc" {% include "h" %}, "incw" ... with context,
    "imp" {% import "h" as m with context %}{{ m.pub() }}, "from" {% from "h" import pub with context %}{{ pub() }};
    second in SEQ_SECOND: "inc" {% include "h" %}, "from" {% from "h" import pub with context %}{{ pub() }},
    "direct" {{ loc }} printed by the main template itself; rvloc: render(loc="RL") is passed as well.
    The helper shape is ("pubm",).

    ctx        None (statement default) | "with" | "without"       (… with context / without context)
    ignore     bool                                                  (include … ignore missing)
    target     how the helper is named in the statement:
               "lit" "h"; "list" ["nope", "h"]; "var" tv="h"; "varlist" tv=["nope","h"];
               "lit-warm" = "lit" after the harness touched env.get_template("h").module (cached default module);
               "obj" tv=env.get_template("h", globals=…); "fs" tv=env.from_string(<h source>, globals=…);
               "lit-missing" "nope"; "list-missing" ["nope","nope2"]; "var-missing" tv="nope";
               "boom" (existing template that raises UndefinedError);
               "inner-missing" (existing template that includes a missing one)
    variant    "names" | "priv" (asks for _priv: TemplateAssertionError) | "callmissing" (calls the missing name)
    placement  where the statement sits in the main template, which decides the includer's local `loc`:
               "top" (no loc), "for" (loc = L1, L2), "with" (loc = W), "macro" (parameter loc = M),
               "afterset" (top-level {% set loc = "S" %} before it)
    mglob      main loaded with env.get_template("main", globals={"mg": "G"}) or without template globals
    hglob      helper "h" (pre)loaded with globals={"hg": "K"} or without
    hshape     tuple of helper features, subset of FEATURES in that order:
               pubm   {% macro pub() %}P(<vars>){% endmacro %}
               privm  {% macro _priv() %}p{% endmacro %}
               topa   {% set top = "T(" ~ <vars> ~ ")" %}
               priva  {% set _pv = "v" %}
               ifa    {% if eg %}{% set ifv = "I" %}{% else %}{% set ifn = "N" %}{% endif %}
               fora   {% for q in [1] %}{% set forv = "F" %}{% endfor %}
               impas  {% set sub = "s" %}{% import "h2" as sub %}              and the body prints [{{ sub.deep() }}]
               impfrom {% set deep = "d" %}{% from "h2" import deep with context %}   and the body prints /{{ deep() }}/
                      (the name is assigned first so that the export bookkeeping has something to undo)
               alias1 {% macro deep2() %}own{% endmacro %}{% from "h2" import deep2 as al1 %}   (own public deep2 stays
                      exported, al1 is not)        alias2 {% set al2 = "x" %}{% from "h2" import deep2 as al2 %} (al2 not exported)
                      (EXTRA_FEATURES: only in the few extra shapes of helper_shapes(), not in the full product)
               The helper body always ends with H<rv.loc.eg.mg.hg> (each empty when not visible).
    how        "module" (Template.module), "make_module" (make_module({"rv": "R2"})), for templates obtained by
               "get" (get_template) or "fs" (from_string):  how in HOWS

    ("sel", via, ignore, items)      candidate lists: items = tuple over SEL_ALPHA ("nope"/"nope2" missing names, "a"/"b"
               existing names, "OBJ"/"OBJ2" Template objects from from_string), every list of length 1..3 (thorough: 1..4 over
               the larger alphabet); via in SEL_VIAS: "inc-lit" {% include ["nope", "a", tv] %} (objects through the
               variables tv / tv2), "inc-var" {% include cands %}, "select" env.select_template(list),
               "get_or_select" env.get_or_select_template(list); ignore = ignore missing (includes only).
               Reference: the FIRST entry that exists (a Template object always exists) is rendered.
    ("tset", obs, where, names)      helper whose only assignment is {% set <names> = "V0", "V1", ... %} (tuple unpacking;
               one name = plain set), names = ordered distinct tuple over TSET_ALPHA (public x, y; private _p, _q), placed
               at top level / inside an executed if / inside a for body (thorough also: inside with); obs "module"
               (attributes of Template.module), "make_module", "import" ({% import "h" as m %} and, per alphabet name,
               {{ m.N is defined }}:{{ m.N }}).  Reference: exactly the public names of a top-level (or if) assignment.

    cases(bound, shard=None)   all cases of "quick" / "thorough", simplest first, deterministic; shard=(k, n)
    count(bound)
    to_templates(case)         -> (sources, main_name, data); data values may be TemplateRef / TemplateFromString
                                  markers; globals_for(case) gives the env/main/helper globals
    build(case, env_kwargs=None) -> (env, main_name_or_None, data, globals)   fresh Environment, helper preloaded, markers bound
    run(case, env_kwargs=None) -> outcome of the real engine: str | ("exc", Class) | dict (family "mod")
    expected(case)             -> R-ctx answer in the same format
    tojson(case) / fromjson(x)

R-ctx follows docs/templates.rst "Include", "Import", "Import Context Behavior" and docs/api.rst
"The Global Namespace"; rules read off the pinned tree are tagged `# CALIBRATED`.
"""
from __future__ import annotations

import itertools

EXTRA_FEATURES = ("alias1", "alias2")
SHADOW_VARS = ("rv", "eg")
SHADOW_WHERE = ("top", "block")
FEATURES = ("pubm", "privm", "topa", "priva", "ifa", "fora", "impas", "impfrom")
PLACEMENTS = ("top", "for", "with", "macro", "afterset")
CTXS = (None, "with", "without")
INC_TARGETS = ("lit", "lit-warm", "list", "var", "varlist", "obj", "fs", "lit-missing", "list-missing", "var-missing", "boom",
               "inner-missing")
IMP_TARGETS = ("lit", "lit-warm", "var", "obj", "fs", "lit-missing")
FROM_VARIANTS = ("names", "priv", "callmissing")
HOWS = ("get/module", "get/make_module", "fs/module", "fs/make_module")
SEQ_FIRST = ("inc", "incw", "imp", "from")
SEQ_SECOND = ("inc", "from", "direct")
SEQ_PLACEMENTS = ("for", "with", "macro")
SEQ_SHAPE = ("pubm",)
RV_LOC = "RL"

SEL_VIAS = ("inc-lit", "inc-var", "select", "get_or_select")
SEL_ALPHA = {"quick": ("nope", "a", "b", "OBJ"), "thorough": ("nope", "nope2", "a", "b", "OBJ", "OBJ2")}
SEL_LEN = {"quick": 3, "thorough": 4}
SEL_SOURCES = {"a": "A<{{ rv }}>", "b": "B<{{ rv }}>"}
SEL_OBJECTS = {"OBJ": ("tv", "O<{{ rv }}>"), "OBJ2": ("tv2", "O2<{{ rv }}>")}
TSET_ALPHA = ("x", "y", "_p", "_q")
TSET_LEN = {"quick": 3, "thorough": 4}
TSET_WHERE = {"quick": ("top", "if", "for"), "thorough": ("top", "if", "for", "with")}
TSET_OBS = ("module", "make_module", "import")

VARS = ("rv", "loc", "eg", "mg", "hg")
ENV_GLOBALS = {"eg": "E"}
MAIN_GLOBALS = {"mg": "G"}
HELPER_GLOBALS = {"hg": "K"}
RENDER_VARS = {"rv": "R"}
LOCS = {"top": (None,), "for": ("L1", "L2"), "with": ("W",), "macro": ("M",), "afterset": ("S",)}
# every name a helper module could conceivably expose
PROBE_NAMES = ("pub", "_priv", "top", "_pv", "ifv", "ifn", "forv", "q", "sub", "deep", "deep2", "al1", "al2", "rv", "loc", "eg", "mg", "hg")


class TemplateRef:
    """data marker: env.get_template(name, globals=globals)"""

    def __init__(self, name, globals=None):
        self.name, self.globals = name, globals

    def __repr__(self):
        return f"TemplateRef({self.name!r}, {self.globals!r})"


class TemplateFromString:
    """data marker: env.from_string(source, globals=globals)"""

    def __init__(self, source, globals=None):
        self.source, self.globals = source, globals

    def __repr__(self):
        return f"TemplateFromString(<{len(self.source)} chars>, {self.globals!r})"


# ------------------------------------------------------------------ enumeration


_EXTRA_SHAPES = [("alias1",), ("alias2",), ("alias1", "alias2"), ("pubm", "topa", "alias1", "alias2"),
                 FEATURES + EXTRA_FEATURES]


def helper_shapes(bound):
    if bound == "quick":
        return [()] + [(f,) for f in FEATURES] + [FEATURES] + _EXTRA_SHAPES
    out = []
    for r in range(len(FEATURES) + 1):
        for c in itertools.combinations(FEATURES, r):
            out.append(c)
    return out + _EXTRA_SHAPES


INC_SHAPES = ((), ("impas",), ("impfrom",), ("impas", "impfrom"))


def _all_cases(bound):
    shapes = helper_shapes(bound)
    globs = [(False, False), (True, False), (False, True), (True, True)]
    # module family
    for shape in shapes:
        for hglob in (False, True):
            for how in HOWS:
                yield ("mod", how, hglob, shape)
    # includes (the helper's module features are irrelevant; only its nested imports vary)
    for shape in INC_SHAPES:
        for mglob, hglob in globs:
            for placement in PLACEMENTS:
                for target in INC_TARGETS:
                    for ctx in CTXS:
                        for ignore in (False, True):
                            yield ("inc", ctx, ignore, target, placement, mglob, hglob, shape)
    # two statements in sequence: does a local passed to the first leak into the second?
    for mglob, hglob in globs:
        for placement in SEQ_PLACEMENTS:
            for first in SEQ_FIRST:
                for second in SEQ_SECOND:
                    for rvloc in (False, True):
                        yield ("seq", first, placement, second, rvloc, mglob, hglob)
    # a top-level assignment shadowing a render argument / global, statement at top level or in a block
    for mglob, hglob in globs:
        for where in SHADOW_WHERE:
            for var in SHADOW_VARS:
                for stmt in SEQ_FIRST:
                    yield ("shadow", stmt, var, where, mglob, hglob)
    # candidate lists mixing missing names, existing names and Template objects
    for n in range(1, SEL_LEN[bound] + 1):
        for items in itertools.product(SEL_ALPHA[bound], repeat=n):
            for via in SEL_VIAS:
                for ignore in ((False, True) if via.startswith("inc") else (False,)):
                    yield ("sel", via, ignore, items)
    # tuple-unpacking assignments mixing public and private names, seen through the module
    for n in range(1, TSET_LEN[bound] + 1):
        for names in itertools.permutations(TSET_ALPHA, n):
            for where in TSET_WHERE[bound]:
                for obs in TSET_OBS:
                    yield ("tset", obs, where, names)
    # import ... as m
    for shape in shapes:
        for mglob, hglob in globs:
            for placement in PLACEMENTS:
                for target in IMP_TARGETS:
                    for ctx in CTXS:
                        yield ("imp", ctx, target, placement, mglob, hglob, shape)
    # from ... import
    for shape in shapes:
        for mglob, hglob in globs:
            for placement in PLACEMENTS:
                for target in IMP_TARGETS:
                    for ctx in CTXS:
                        for variant in FROM_VARIANTS:
                            if variant != "names" and (target != "lit" or shape not in (shapes[0], shapes[-1])):
                                continue
                            yield ("from", ctx, target, variant, placement, mglob, hglob, shape)


def cases(bound="quick", shard=None):
    for i, c in enumerate(_all_cases(bound)):
        if shard is None or i % shard[1] == shard[0]:
            yield c


def count(bound="quick"):
    return sum(1 for _ in _all_cases(bound))


def tojson(case):
    return [list(x) if isinstance(x, tuple) else x for x in case]


def fromjson(obj):
    return tuple(tuple(x) if isinstance(x, list) else x for x in obj)


def _fields(case):
    fam = case[0]
    if fam == "inc":
        _, ctx, ignore, target, placement, mglob, hglob, shape = case
        return dict(fam=fam, ctx=ctx, ignore=ignore, target=target, placement=placement, mglob=mglob, hglob=hglob,
                    shape=tuple(shape), variant=None)
    if fam == "imp":
        _, ctx, target, placement, mglob, hglob, shape = case
        return dict(fam=fam, ctx=ctx, ignore=False, target=target, placement=placement, mglob=mglob, hglob=hglob,
                    shape=tuple(shape), variant=None)
    if fam == "from":
        _, ctx, target, variant, placement, mglob, hglob, shape = case
        return dict(fam=fam, ctx=ctx, ignore=False, target=target, placement=placement, mglob=mglob, hglob=hglob,
                    shape=tuple(shape), variant=variant)
    if fam == "mod":
        _, how, hglob, shape = case
        return dict(fam=fam, how=how, hglob=hglob, shape=tuple(shape), mglob=False)
    if fam == "shadow":
        _, stmt, var, where, mglob, hglob = case
        return dict(fam=fam, stmt=stmt, var=var, where=where, placement=where, mglob=mglob, hglob=hglob,
                    shape=SEQ_SHAPE, ctx="with", ignore=False, target="lit", variant=None)
    if fam == "seq":
        _, first, placement, second, rvloc, mglob, hglob = case
        return dict(fam=fam, first=first, second=second, rvloc=rvloc, placement=placement, mglob=mglob, hglob=hglob,
                    shape=SEQ_SHAPE, ctx="with", ignore=False, target="lit", variant=None)
    if fam == "sel":
        _, via, ignore, items = case
        return dict(fam=fam, via=via, ignore=ignore, items=tuple(items), ctx=None, placement=via, mglob=False,
                    hglob=False, shape=(), target="sel", variant=None)
    if fam == "tset":
        _, obs, where, names = case
        return dict(fam=fam, obs=obs, where=where, names=tuple(names), ctx=None, placement=where, mglob=False,
                    hglob=False, shape=(), target="lit", variant=None)
    raise ValueError(case)


# ------------------------------------------------------------------ source emission

_VARS_OUT = ".".join("{{ %s }}" % v for v in VARS)
_VARS_CAT = ' ~ "." ~ '.join(VARS)

H2_SRC = ("{% macro deep() %}D({{ rv }}.{{ loc }}.{{ eg }}.{{ hg }}){% endmacro %}"
          "{% macro deep2() %}E2{% endmacro %}h2body")
BOOM_SRC = "B{{ nothing.attr }}"
INNER_MISSING_SRC = 'X{% include "nope" %}'


def helper_source(shape):
    s = []
    if "pubm" in shape:
        s.append("{% macro pub() %}P(" + _VARS_OUT + "){% endmacro %}")
    if "privm" in shape:
        s.append("{% macro _priv() %}p{% endmacro %}")
    if "topa" in shape:
        s.append('{% set top = "T(" ~ ' + _VARS_CAT + ' ~ ")" %}')
    if "priva" in shape:
        s.append('{% set _pv = "v" %}')
    if "ifa" in shape:
        s.append('{% if eg %}{% set ifv = "I" %}{% else %}{% set ifn = "N" %}{% endif %}')
    if "fora" in shape:
        s.append('{% for q in [1] %}{% set forv = "F" %}{% endfor %}')
    if "impas" in shape:
        s.append('{% set sub = "s" %}{% import "h2" as sub %}')
    if "impfrom" in shape:
        s.append('{% set deep = "d" %}{% from "h2" import deep with context %}')
    if "alias1" in shape:
        s.append('{% macro deep2() %}own{% endmacro %}{% from "h2" import deep2 as al1 %}')
    if "alias2" in shape:
        s.append('{% set al2 = "x" %}{% from "h2" import deep2 as al2 %}')
    if "impas" in shape:
        s.append("[{{ sub.deep() }}]")
    if "impfrom" in shape:
        s.append("/{{ deep() }}/")
    s.append("H<" + _VARS_OUT + ">")
    return "".join(s)


def _ctx_words(ctx):
    return {None: "", "with": " with context", "without": " without context"}[ctx]


def _target_expr(target):
    if target in ("lit", "lit-warm"):
        return '"h"'
    if target == "list":
        return '["nope", "h"]'
    if target in ("var", "varlist", "obj", "fs", "var-missing"):
        return "tv"
    if target == "lit-missing":
        return '"nope"'
    if target == "list-missing":
        return '["nope", "nope2"]'
    if target == "boom":
        return '"boom"'
    if target == "inner-missing":
        return '"hm"'
    raise ValueError(target)


# names requested by the from-import and how each is shown: (name in helper, alias in main)
FROM_NAMES = (("pub", "pub"), ("top", "z"), ("ifv", "ifv"), ("ifn", "ifn"), ("forv", "forv"), ("sub", "sub"),
              ("deep", "deep"), ("deep2", "deep2"), ("al1", "al1"), ("al2", "al2"), ("missing_name", "missing_name"))
IMP_NAMES = ("pub", "_priv", "top", "_pv", "ifv", "ifn", "forv", "q", "sub", "deep", "deep2", "al1", "al2", "nope")


def exports(shape):
    """docs "Import": a module exposes the public top-level macros and assignments.
    Assignments made in an executed `if` branch are top-level; loop bodies are their own scope;
    names starting with an underscore are private."""
    out = {}
    if "pubm" in shape:
        out["pub"] = "macro"
    if "topa" in shape:
        out["top"] = "value"
    if "ifa" in shape:
        out["ifv"] = "value"
    if "alias1" in shape:
        out["deep2"] = "macro"  # the helper's own public macro; importing h2's deep2 under another name does not touch it
    # CALIBRATED: a template's own imports (sub, deep) are not re-exported, also when the name was
    # assigned before and is re-bound by the import
    return out


def _use_import(shape):
    ex = exports(shape)
    parts = []
    for n in IMP_NAMES:
        if ex.get(n) == "macro":
            parts.append("{{ m.%s() }}" % n)
        elif ex.get(n) == "value":
            parts.append("{{ m.%s }}" % n)
        else:
            parts.append("{{ m.%s is defined }}" % n)
    return "|".join(parts)


def _use_from(shape, variant):
    if variant == "callmissing":
        return "{{ missing_name() }}"
    ex = exports(shape)
    parts = []
    for n, alias in FROM_NAMES:
        if ex.get(n) == "macro":
            parts.append("{{ %s() }}" % alias)
        elif ex.get(n) == "value":
            parts.append("{{ %s }}" % alias)
        else:
            parts.append("{{ %s is defined }}" % alias)
    return "|".join(parts)


_SEQ_STMT = {
    "inc": '{% include "h" %}',
    "incw": '{% include "h" with context %}',
    "imp": '{% import "h" as m with context %}{{ m.pub() }}',
    "from": '{% from "h" import pub with context %}{{ pub() }}',
    "direct": "{{ loc }}",
}


def _seq_source(f):
    x = _SEQ_STMT[f["first"]]
    y = _SEQ_STMT[f["second"]]
    pl = f["placement"]
    if pl == "for":
        return 'M[{% for loc in ["L1", "L2"] %}' + x + ";{% endfor %}|" + y + "]"
    if pl == "with":
        return 'M[{% with loc = "W" %}' + x + "{% endwith %}|" + y + "]"
    if pl == "macro":
        return "{% macro mm(loc) %}" + x + '{% endmacro %}M[{{ mm("M") }}|' + y + "]"
    raise ValueError(pl)


def _shadow_source(f):
    x = _SEQ_STMT[f["stmt"]]
    head = '{% set ' + f["var"] + ' = "S" %}'
    if f["where"] == "block":
        return head + "M[{% block b %}" + x + "{% endblock %}]"
    return head + "M[" + x + "]"


def main_source(case):
    f = _fields(case)
    fam = f["fam"]
    if fam == "shadow":
        return _shadow_source(f)
    if fam == "seq":
        return _seq_source(f)
    tx = _target_expr(f["target"])
    if fam == "inc":
        x = "{% include " + tx + (" ignore missing" if f["ignore"] else "") + _ctx_words(f["ctx"]) + " %}"
    elif fam == "imp":
        x = "{% import " + tx + " as m" + _ctx_words(f["ctx"]) + " %}" + _use_import(f["shape"])
    else:
        names = ", ".join(n if n == a else f"{n} as {a}" for n, a in FROM_NAMES)
        if f["variant"] == "priv":
            names += ", _priv"
        x = "{% from " + tx + " import " + names + _ctx_words(f["ctx"]) + " %}" + _use_from(f["shape"], f["variant"])
    pl = f["placement"]
    if pl == "top":
        return "M[" + x + "]"
    if pl == "for":
        return 'M[{% for loc in ["L1", "L2"] %}' + x + ";{% endfor %}]"
    if pl == "with":
        return 'M[{% with loc = "W" %}' + x + "{% endwith %}]"
    if pl == "macro":
        return "{% macro mm(loc) %}" + x + '{% endmacro %}M[{{ mm("M") }}]'
    if pl == "afterset":
        return '{% set loc = "S" %}M[' + x + "]"
    raise ValueError(pl)


def globals_for(case):
    f = _fields(case)
    return {"env": dict(ENV_GLOBALS), "main": dict(MAIN_GLOBALS) if f.get("mglob") else None,
            "h": dict(HELPER_GLOBALS) if f["hglob"] else None}


def to_templates(case):
    f = _fields(case)
    if f["fam"] in ("sel", "tset"):
        # the C05 families bring their own template sets; the ones rendered through a main template (candidate
        # lists of an include, a tuple assignment seen through {% import %}) are also items of the shared corpus,
        # the others (select_template calls, module attributes) have no main template, like family "mod"
        src, data, cands = extra_sources(case)
        if "main" not in src:
            return src, None, {}
        if f["fam"] == "sel" and f["via"] == "inc-var":
            data["cands"] = [data[SEL_OBJECTS[i][0]] if i in SEL_OBJECTS else i for i in cands]
        return src, "main", data
    hsrc = helper_source(f["shape"])
    src = {"h": hsrc, "h2": H2_SRC, "boom": BOOM_SRC, "hm": INNER_MISSING_SRC}
    if f["fam"] == "mod":
        return src, None, {}
    src["main"] = main_source(case)
    data = dict(RENDER_VARS)
    if f.get("rvloc"):
        data["loc"] = RV_LOC
    hg = dict(HELPER_GLOBALS) if f["hglob"] else None
    t = f["target"]
    if t == "var":
        data["tv"] = "h"
    elif t == "varlist":
        data["tv"] = ["nope", "h"]
    elif t == "var-missing":
        data["tv"] = "nope"
    elif t == "obj":
        data["tv"] = TemplateRef("h", hg)
    elif t == "fs":
        data["tv"] = TemplateFromString(hsrc, hg)
    return src, "main", data


def bind_data(env, data):
    """replace the TemplateRef / TemplateFromString markers of `data` (also inside lists) by templates of `env`;
    one marker object becomes one template object wherever it occurs"""
    memo = {}

    def bind(v):
        if isinstance(v, (TemplateRef, TemplateFromString)):
            if id(v) not in memo:
                memo[id(v)] = (env.get_template(v.name, globals=v.globals) if isinstance(v, TemplateRef)
                               else env.from_string(v.source, globals=v.globals))
            return memo[id(v)]
        if isinstance(v, list):
            return [bind(x) for x in v]
        return v

    return {k: bind(v) for k, v in data.items()}


def build(case, env_kwargs=None):
    import jinja2

    src, main, data = to_templates(case)
    g = globals_for(case)
    env = jinja2.Environment(loader=jinja2.DictLoader(src), **(env_kwargs or {}))
    env.globals.update(g["env"])
    if "h" in src:
        # api.rst get_template: "globals: Extend the environment globals with these extra variables
        # available for all renders of this template"; a cached template keeps them
        h = env.get_template("h", globals=g["h"])
        if _fields(case).get("target") == "lit-warm":
            # docs "Import": imports are cached -- a default module that already exists must not change
            # what a later include/import can see
            str(h.module)
    return env, main, bind_data(env, data), g


def _exc_name(e):
    import jinja2

    if isinstance(e, jinja2.TemplateNotFound):
        return "TemplateNotFound"  # TemplatesNotFound is the documented subclass for lists
    return type(e).__name__


def observe_module(mod):
    """JSON-able observation of a TemplateModule that does not depend on its internals."""
    from jinja2.environment import TemplateModule

    own = sorted(set(dir(mod)) - set(dir(TemplateModule)) - {"_body_stream", "__name__"})
    obs = {"names": own, "has": [n for n in PROBE_NAMES if hasattr(mod, n)], "str": str(mod)}
    if hasattr(mod, "pub"):
        obs["pub()"] = str(mod.pub())
    if hasattr(mod, "top"):
        obs["top"] = str(mod.top)
    if hasattr(mod, "ifv"):
        obs["ifv"] = str(mod.ifv)
    if hasattr(mod, "deep2"):
        obs["deep2()"] = str(mod.deep2())
    return obs


def run(case, env_kwargs=None):
    f = _fields(case)
    if f["fam"] in ("sel", "tset"):
        return run_extra(case, env_kwargs)
    try:
        env, main, data, g = build(case, env_kwargs)
        if f["fam"] == "mod":
            via, how = f["how"].split("/")
            if via == "get":
                t = env.get_template("h")
            else:
                t = env.from_string(helper_source(f["shape"]), globals=g["h"])
            mod = t.module if how == "module" else t.make_module({"rv": "R2"})
            return observe_module(mod)
        return env.get_template(main, globals=g["main"]).render(**data)
    except Exception as e:  # noqa: BLE001
        return ("exc", _exc_name(e))


# ------------------------------------------------------------------ R-ctx


def _fmt(vis):
    return ".".join(vis.get(k, "") for k in VARS)


def visible(mode, importer_vis, importer_tglobals, target_tglobals):
    """Variables the target template can see.

    docs "Include": access to the context of the current template by default, `without context` a
    separate one; "Import": imported templates see just the globals by default; "Import Context
    Behavior": with/without context switches it for both; the note there: the context passed
    includes the current local variables.  api.rst "The Global Namespace": globals "are also
    available to templates that are imported or included without context"; "Only one set of
    globals is used during any specific rendering".
    """
    if mode == "with":
        # the current context (render variables, the includer's globals) + current locals;
        # the target's own template globals are not a second set of globals of that rendering
        return dict(importer_vis)
    vis = dict(ENV_GLOBALS)
    # CALIBRATED: "globals" of a context-free include/import = environment globals + the TARGET's own
    # template-level globals
    vis.update(target_tglobals)
    if mode == "import-without":
        # CALIBRATED (docstring of Template._get_default_module): an import without context also
        # sees the importing template's template-level globals ...
        # CALIBRATED: ... but only those the importer itself can see: an importer that runs on its
        # includer's context (included / imported with context) does not see its own template
        # globals and does not pass them on
        vis.update({k: v for k, v in importer_tglobals.items() if k in importer_vis})
    elif mode != "include-without":
        raise ValueError(mode)
    return vis


def _deep(vis):
    return "D(" + ".".join(vis.get(k, "") for k in ("rv", "loc", "eg", "hg")) + ")"


def helper_body(shape, vis, hglob):
    """text the helper renders when executed with visible variables `vis`."""
    htg = HELPER_GLOBALS if hglob else {}
    out = ""
    if "impas" in shape:
        out += "[" + _deep(visible("import-without", vis, htg, {})) + "]"
    if "impfrom" in shape:
        out += "/" + _deep(visible("with", vis, htg, {})) + "/"
    return out + "H<" + _fmt(vis) + ">"


def module_values(shape, vis):
    vals = {}
    ex = exports(shape)
    if "pub" in ex:
        vals["pub"] = "P(" + _fmt(vis) + ")"
    if "top" in ex:
        vals["top"] = "T(" + _fmt(vis) + ")"
    if "ifv" in ex:
        vals["ifv"] = "I"
    if "deep2" in ex:
        vals["deep2"] = "own"
    return vals


def _expected_shadow(f):
    vis = dict(ENV_GLOBALS)
    if f["mglob"]:
        vis.update(MAIN_GLOBALS)
    vis.update(RENDER_VARS)
    # docs "Assignments": a top-level assignment sets the variable for the rest of the template (it is what
    # {{ var }} prints from then on, whatever render() or the globals said) and the include / import with
    # context passes the CURRENT context.  CALIBRATED: top-level assignments are visible inside blocks.
    vis[f["var"]] = "S"
    hvis = visible("with", vis, None, None)
    if f["stmt"] in ("inc", "incw"):
        return "M[" + helper_body(SEQ_SHAPE, hvis, f["hglob"]) + "]"
    return "M[" + module_values(SEQ_SHAPE, hvis)["pub"] + "]"


def _expected_seq(f):
    hglob = f["hglob"]
    base = dict(ENV_GLOBALS)
    if f["mglob"]:
        base.update(MAIN_GLOBALS)
    base.update(RENDER_VARS)
    if f["rvloc"]:
        base["loc"] = RV_LOC

    def show(stmt, vis):
        hvis = visible("with", vis, None, None)
        if stmt in ("inc", "incw"):
            return helper_body(SEQ_SHAPE, hvis, hglob)
        if stmt in ("imp", "from"):
            return module_values(SEQ_SHAPE, hvis)["pub"]
        return vis.get("loc", "")  # "direct"

    pieces = [show(f["first"], dict(base, loc=loc)) for loc in LOCS[f["placement"]]]
    first = "".join(p + ";" for p in pieces) if f["placement"] == "for" else pieces[0]
    # the scope of the local has ended: the second statement sees the render variable again (docs
    # "Import Context Behavior": the *current* context is passed; scoping of for / with / macro arguments)
    return "M[" + first + "|" + show(f["second"], base) + "]"


def expected(case):
    f = _fields(case)
    if f["fam"] in ("sel", "tset"):
        return expected_extra(case)
    shape = f["shape"]
    hglob = f["hglob"]
    htg = HELPER_GLOBALS if hglob else {}
    if f["fam"] == "mod":
        how = f["how"].split("/")[1]
        vis = dict(ENV_GLOBALS)
        vis.update(htg)
        if how == "make_module":
            vis["rv"] = "R2"
        vals = module_values(shape, vis)
        obs = {"names": sorted(vals), "has": [n for n in PROBE_NAMES if n in vals], "str": helper_body(shape, vis, hglob)}
        if "pub" in vals:
            obs["pub()"] = vals["pub"]
        if "top" in vals:
            obs["top"] = vals["top"]
        if "ifv" in vals:
            obs["ifv"] = vals["ifv"]
        if "deep2" in vals:
            obs["deep2()"] = vals["deep2"]
        return obs
    fam, target, ctx = f["fam"], f["target"], f["ctx"]
    if fam == "seq":
        return _expected_seq(f)
    if fam == "shadow":
        return _expected_shadow(f)
    if fam == "from" and f["variant"] == "priv":
        # docs "Import": names starting with underscores are private and cannot be imported
        return ("exc", "TemplateAssertionError")
    mtg = MAIN_GLOBALS if f["mglob"] else {}
    pieces = []
    for loc in LOCS[f["placement"]]:
        mvis = dict(ENV_GLOBALS)
        mvis.update(mtg)
        mvis.update(RENDER_VARS)
        if loc is not None:
            mvis["loc"] = loc
        if fam == "inc":
            if target.endswith("-missing") and target != "inner-missing":
                if f["ignore"]:
                    pieces.append("")  # docs: "ignore the statement if the template does not exist"
                    continue
                return ("exc", "TemplateNotFound")
            if target == "boom":
                return ("exc", "UndefinedError")  # ignore missing suppresses only missing templates
            if target == "inner-missing":
                return ("exc", "TemplateNotFound")  # the named template exists; the error comes from inside it
            mode = "with" if ctx in (None, "with") else "include-without"
            pieces.append(helper_body(shape, visible(mode, mvis, mtg, htg), hglob))
            continue
        if target.endswith("-missing"):
            return ("exc", "TemplateNotFound")
        mode = "with" if ctx == "with" else "import-without"
        hvis = visible(mode, mvis, mtg, htg)
        vals = module_values(shape, hvis)
        if fam == "imp":
            pieces.append("|".join(vals.get(n, "False") for n in IMP_NAMES))
        else:
            if f["variant"] == "callmissing":
                # docs: a missing name is undefined; using (calling) it fails
                return ("exc", "UndefinedError")
            pieces.append("|".join(vals.get(n, "False") for n, _ in FROM_NAMES))
    pl = f["placement"]
    if pl == "for":
        body = "".join(p + ";" for p in pieces)
    else:
        body = pieces[0]
    return "M[" + body + "]"


# ------------------------------------------------------------------ families "sel" and "tset"


def extra_sources(case):
    """(sources, render data with TemplateFromString markers, candidate list or None)"""
    f = _fields(case)
    if f["fam"] == "sel":
        src = dict(SEL_SOURCES)
        data = dict(RENDER_VARS)
        for o in sorted(set(f["items"]) & set(SEL_OBJECTS)):
            var, osrc = SEL_OBJECTS[o]
            data[var] = TemplateFromString(osrc, None)
        ign = " ignore missing" if f["ignore"] else ""
        if f["via"] == "inc-lit":
            lst = ", ".join(SEL_OBJECTS[i][0] if i in SEL_OBJECTS else '"%s"' % i for i in f["items"])
            src["main"] = "M[{% include [" + lst + "]" + ign + " %}]"
        elif f["via"] == "inc-var":
            src["main"] = "M[{% include cands" + ign + " %}]"
        return src, data, list(f["items"])
    names = f["names"]
    values = ", ".join('"V%d"' % i for i in range(len(names)))
    st = "{% set " + ", ".join(names) + " = " + values + " %}"
    st += "".join("{{ %s }}" % n for n in names)
    where = f["where"]
    if where == "if":
        st = "{% if eg %}" + st + "{% endif %}"
    elif where == "for":
        st = "{% for q in [1] %}" + st + "{% endfor %}"
    elif where == "with":
        st = "{% with w = 1 %}" + st + "{% endwith %}"
    src = {"h": "h<" + st + ">"}
    if f["obs"] == "import":
        src["main"] = '{% import "h" as m %}' + "|".join("{{ m.%s is defined }}:{{ m.%s }}" % (n, n) for n in TSET_ALPHA)
    return src, dict(RENDER_VARS), None


def run_extra(case, env_kwargs=None):
    import jinja2
    from jinja2.environment import TemplateModule

    f = _fields(case)
    try:
        src, data, cands = extra_sources(case)
        env = jinja2.Environment(loader=jinja2.DictLoader(src), **(env_kwargs or {}))
        env.globals.update(ENV_GLOBALS)
        data = {k: (env.from_string(v.source) if isinstance(v, TemplateFromString) else v) for k, v in data.items()}
        if f["fam"] == "sel":
            if f["via"].startswith("inc"):
                if f["via"] == "inc-var":
                    data["cands"] = [data[SEL_OBJECTS[i][0]] if i in SEL_OBJECTS else i for i in cands]
                return env.get_template("main").render(**data)
            lst = [data[SEL_OBJECTS[i][0]] if i in SEL_OBJECTS else i for i in cands]
            t = env.select_template(lst) if f["via"] == "select" else env.get_or_select_template(lst)
            return "M[" + t.render(rv=data["rv"]) + "]"
        if f["obs"] == "import":
            return env.get_template("main").render(**data)
        t = env.get_template("h")
        mod = t.module if f["obs"] == "module" else t.make_module({"rv": "R2"})
        own = sorted(set(dir(mod)) - set(dir(TemplateModule)) - {"_body_stream", "__name__"})
        return {"names": own, "has": [n for n in TSET_ALPHA if hasattr(mod, n)],
                "values": [str(getattr(mod, n)) for n in own], "str": str(mod)}
    except Exception as e:  # noqa: BLE001
        return ("exc", _exc_name(e))


def expected_extra(case):
    f = _fields(case)
    if f["fam"] == "sel":
        # api.rst select_template: "tries a number of templates before it fails ... names: List of template names
        # or Template objects to try in order"; templates.rst Include: "each will be tried in order until one is not
        # missing"; "ignore missing": the statement is ignored when none exists
        for i in f["items"]:
            if i in SEL_SOURCES:
                return "M[" + i.upper() + "<R>]"
            if i in SEL_OBJECTS:
                return "M[" + i.replace("OBJ", "O") + "<R>]"
        return "M[]" if f["ignore"] else ("exc", "TemplateNotFound")
    names = f["names"]
    val = {n: "V%d" % i for i, n in enumerate(names)}
    # docs "Import": public top-level assignments are exported, names starting with an underscore are private;
    # an executed if branch is top level, a loop body (and a with block) is its own scope
    exp = sorted(n for n in names if not n.startswith("_")) if f["where"] in ("top", "if") else []
    if f["obs"] == "import":
        return "|".join(("True:" + val[n]) if n in exp else "False:" for n in TSET_ALPHA)
    return {"names": exp, "has": [n for n in TSET_ALPHA if n in exp], "values": [val[n] for n in exp],
            "str": "h<" + "".join(val[n] for n in names) + ">"}


def extra_features(case):
    """counters that show a case of the new families exercised what the family is about"""
    f = _fields(case)
    out = []
    if f["fam"] == "sel":
        items = f["items"]
        objs = [k for k, i in enumerate(items) if i in SEL_OBJECTS]
        nm = [k for k, i in enumerate(items) if i in SEL_SOURCES]
        if objs and nm and nm[0] < objs[0]:
            out.append("sel_existing_name_before_object")
        if objs and nm and objs[0] < nm[0]:
            out.append("sel_object_before_existing_name")
        if objs and items[0] not in SEL_OBJECTS and items[0] not in SEL_SOURCES and (not nm or objs[0] < nm[0]):
            out.append("sel_object_after_missing_name")
    elif f["fam"] == "tset":
        pub = [n for n in f["names"] if not n.startswith("_")]
        if pub and len(pub) < len(f["names"]) and f["where"] in ("top", "if"):
            out.append("tset_mixed_public_private_toplevel")
        if len(f["names"]) > 1 and not pub:
            out.append("tset_all_private_tuple")
    return out


def extra_script(case):
    f = _fields(case)
    src, data, cands = extra_sources(case)
    objs = {k: v.source for k, v in data.items() if isinstance(v, TemplateFromString)}
    plain = {k: v for k, v in data.items() if not isinstance(v, TemplateFromString)}
    s = ("import jinja2\n"
         f"src = {src!r}\n"
         "env = jinja2.Environment(loader=jinja2.DictLoader(src))\n"
         f"env.globals.update({ENV_GLOBALS!r})\n"
         f"data = {plain!r}\n"
         f"data.update({{k: env.from_string(v) for k, v in {objs!r}.items()}})\n"
         "try:\n")
    if f["fam"] == "sel":
        lst = "[" + ", ".join(("data[%r]" % SEL_OBJECTS[i][0]) if i in SEL_OBJECTS else repr(i) for i in cands) + "]"
        if f["via"] == "inc-lit":
            s += "    print('rendered:', repr(env.get_template('main').render(**data)))\n"
        elif f["via"] == "inc-var":
            s += f"    print('rendered:', repr(env.get_template('main').render(cands={lst}, **data)))\n"
        else:
            meth = "select_template" if f["via"] == "select" else "get_or_select_template"
            s += f"    print('rendered:', repr('M[' + env.{meth}({lst}).render(rv=data['rv']) + ']'))\n"
    elif f["obs"] == "import":
        s += "    print('rendered:', repr(env.get_template('main').render(**data)))\n"
    else:
        s += ("    t = env.get_template('h')\n"
              + ("    m = t.module\n" if f["obs"] == "module" else "    m = t.make_module({'rv': 'R2'})\n")
              + "    print('exposed :', sorted(k for k in vars(m) if k not in ('_body_stream', '__name__')))\n"
                "    print('str     :', repr(str(m)))\n")
    s += ("except Exception as e:\n"
          "    print('raised  :', type(e).__name__, e)\n"
          f"print('expected:', {expected_extra(case)!r})\n")
    return s
